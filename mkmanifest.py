#!/usr/bin/env python3
"""Regenerates MANIFEST.json from manifest_src.py (the claims) so that the
file always validates and lists every property either as a check or under
not_applicable."""
import json, os, sys
here = os.path.dirname(os.path.abspath(__file__))
sys.path.insert(0, here)
from manifest_src import CLAIMS, NOT_APPLICABLE, ENGINES, HOOK_COMMITS

ids = [json.loads(l)["id"] for l in open(os.path.join(here, "properties.jsonl"))]
checks = []
for pid in ids:
    if pid not in CLAIMS:
        continue
    c = CLAIMS[pid]
    checks.append({
        "property_id": pid,
        "quick_cmd": "./check %s --tier quick" % pid,
        "thorough_cmd": "./check %s --tier thorough" % pid,
        "evidence_file": "/verif/evidence/%s.json" % pid,
        "replay_cmd_template": "./check %s --replay {path}" % pid,
        "engine": c.get("engine", "harness"),
        "level_claimed": {"category": c.get("category", "exploration"), "text": c["text"], "design_ref": "DESIGN.md §4 " + pid},
        "level_note": c["note"],
        "technique": c["technique"],
    })
na = [{"property_id": p, "reason": NOT_APPLICABLE[p]} for p in ids if p not in CLAIMS]
for p in ids:
    assert p in CLAIMS or p in NOT_APPLICABLE, p
doc = {
    "version": 1,
    "setup_cmd": "./setup.sh",
    "hooks": {
        "guard": "verif",
        "enable": "go build tag: checks build /repo through the harness module's replace directive with `-tags verif`",
        "baseline_off_cmd": "cd /repo && T=$(mktemp -d) && TMPDIR=$T GOFLAGS=-mod=mod GOPROXY=off go test -json -vet=off -count=1 -timeout 25m ./... ; rc=$?; rm -rf $T; exit $rc",
        "source_commits": HOOK_COMMITS,
        "add_only": True,
    },
    "engines": ENGINES,
    "checks": checks,
    "notes": "All checks are property-based tests / fuzzers (pgregory.net/rapid v1.3.0, native go fuzzing in the thorough tier). Exit 2 from a check means inconclusive (build failure, timeout, OOM), never a violation. See DESIGN.md.",
    "not_applicable": na,
}
json.dump(doc, open(os.path.join(here, "MANIFEST.json"), "w"), indent=1)
print("MANIFEST.json: %d checks, %d not_applicable" % (len(checks), len(na)))
