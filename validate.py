#!/usr/bin/env python3
import json, sys, glob
try:
    import jsonschema
except ImportError:
    sys.path.insert(0, glob.glob('/opt/veriftools/pyvenv/lib/python3*/site-packages')[0])
    import jsonschema
jsonschema.validate(json.load(open('/verif/MANIFEST.json')), json.load(open('/root/.vp/MANIFEST.schema.json')))
n = 0
for f in glob.glob('/verif/evidence/*.json'):
    jsonschema.validate(json.load(open(f)), json.load(open('/root/.vp/EVIDENCE.schema.json'))); n += 1
print("MANIFEST valid;", n, "evidence files valid")
