HOOK_COMMITS = ["1ae5c62"]
FIX_COMMITS = ["42a7f6e", "a52dade", "29629a0"]

ENGINES = [
    {"name": "stack", "path": "harness/internal/stack", "serves_properties": ["C01", "C02"], "kind_free_text": "in-process server: real disk cache + HTTP handler on loopback TCP behind a ServeMux + gRPC over bufconn with panic-recording interceptors"},
    {"name": "gen", "path": "harness/internal/gen", "serves_properties": ["C01", "C02"], "kind_free_text": "rapid generators (blobs by size/content class, corruptions) and two independent zstd codecs"},
    {"name": "ev", "path": "harness/internal/ev", "serves_properties": ["C02"], "kind_free_text": "evidence counters, fingerprints, samples, known-findings lookup"},
]

_PBT = "property-based testing (pgregory.net/rapid): "

CLAIMS = {
    "C03": dict(
        technique=_PBT + "stateful model-based testing (t.Repeat state machine) with an invariant after every step: running counters vs recomputation over the index snapshot plus harness-held reservations",
        text="Generated operation histories (puts, overwrites with other sizes, lookups, failing uploads, uploads HELD open mid-stream and later completed/aborted/corrupted, backend fetches with faults) on a small cache under pressure. After every step, including while requests are open: total = sum round4k(on-disk) + R, reserved = R, total <= max_size, logical total and item count exact, /status agrees; R is what the harness itself holds open. A second machine drives the LRU index directly (sizes at block and max_size edges, oversized reservations).",
        note="Requests overlap only by being held open between steps (real interleavings are C07's). Reservation admission for held uploads is predicted from the statement (size <= max_size and size + R <= max_size). max_size <= 2^50 in the direct LRU machine (values near MaxInt64 are not reachable through the GiB-valued setting).",
    ),
    "C04": dict(
        technique=_PBT + "stateful testing with a directory-vs-index oracle at quiescence; files re-read with an independent implementation of the cas.v2 format",
        text="Same history machine as C03 weighted towards failures at every stage (reservation refused, hash/size mismatch, reader error mid-stream, commit refused, held uploads aborted, backend fetches failing before/during/after the stream). Whenever nothing is in flight and the deletion backlog is exactly zero: the set of regular files equals the harness's own naming function applied to the index snapshot, lengths equal the recorded on-disk sizes, compressed CAS files parse and decode (independent reader, two zstd decoders) to the logical size and SHA-256 of the key, raw files are complete and hold the last accepted bytes.",
        note="Quiescence is observed through the verif hook VerifQueuedEvictionBytes (exact, polled). Backend content faults that keep the length (a bit-flip adversary) are outside C12's trust statement and are not injected for headerless entries.",
    ),
    "C05": dict(
        technique=_PBT + "stateful testing with history invariants (LRU order, pressure-only, minimality, presence, oversize) computed from a harness-side logical clock of uses and real file sizes",
        text="Sequential generated histories of puts (sizes relative to max_size, compressible or not, overwrites with larger/smaller values) and every lookup kind that must refresh recency (Get, Contains, FindMissingCasBlobs, validated-ActionResult dependency check). After each operation: no evicted entry was certainly used more recently than a survivor; evictions only if on-disk total + need > max_size; re-adding the most recently used victim would overflow; accepted uploads are present; items with logical size > max_size are rejected and evict nothing.",
        note="Uses real file sizes (stat) rather than the index's on-disk sizes, so a mis-accounted entry cannot hide an unnecessary eviction. Ties inside one multi-key operation are incomparable and tolerated; lookups with a mismatching size are not generated (the statement does not fix whether they are uses).",
    ),    "C01": dict(
        technique=_PBT + "differential against the harness's own SHA-256/length of the bytes it sent, over generated blob x corruption x 10 write paths x storage mode x zstd codec; compressed payloads judged by two independent decoders",
        text="Generated-input search through the full in-process stack: every case uploads one blob (pristine or with one corruption of data, size, hash, compression or framing) through one of the ten CAS write paths; acknowledged => logical bytes match the declared digest and the blob is then reported present and read back identically; pristine => acknowledged; anything else => error status and the claimed digest absent. Some cases start with the pristine blob already stored so that wrong-size re-uploads meet an existing entry.",
        note="Fresh cache per case; uploads that name an already-present digest (incl. the always-present empty blob) are outside the MUST classes because C16 allows the early return. Blobs up to ~3 MiB. FetchBlob upstream is a harness HTTP server on loopback.",
    ),    "C02": dict(
        technique=_PBT + "round-trip oracle against the original bytes over generated blob x writer/reader configuration x read path x offset x limit; zstd responses decoded by two independent decoders",
        text="Generated-input search: every case writes a blob under one (storage mode, zstd codec), re-opens the directory under another and reads it back through HTTP GET/HEAD (identity and zstd), BatchReadBlobs, ByteStream.Read (blobs/ and compressed-blobs/zstd/ at chunk-edge offsets and limits), GetTree, ActionResult inlining and the disk layer with size known/unknown; delivered bytes must equal the original range. Holds on everything explored; not a proof of absence.",
        note="Trusts SHA-256, klauspost/compress and libzstd as independent decoders; write path is the disk layer's Put (write paths are C01's domain); blobs up to ~3 MiB (4 chunks).",
    ),
}

_TODO = "check not built yet in this session (claimed once its check exists); technique applies"
NOT_APPLICABLE = {p: _TODO for p in ["C06", "C07", "C08", "C09", "C10", "C11", "C12", "C13", "C14", "C15", "C16", "C17", "C18", "C19", "C20"]}
