HOOK_COMMITS = ["1ae5c62"]
FIX_COMMITS = ["42a7f6e", "a52dade"]

ENGINES = [
    {"name": "stack", "path": "harness/internal/stack", "serves_properties": ["C01", "C02"], "kind_free_text": "in-process server: real disk cache + HTTP handler on loopback TCP behind a ServeMux + gRPC over bufconn with panic-recording interceptors"},
    {"name": "gen", "path": "harness/internal/gen", "serves_properties": ["C01", "C02"], "kind_free_text": "rapid generators (blobs by size/content class, corruptions) and two independent zstd codecs"},
    {"name": "ev", "path": "harness/internal/ev", "serves_properties": ["C02"], "kind_free_text": "evidence counters, fingerprints, samples, known-findings lookup"},
]

_PBT = "property-based testing (pgregory.net/rapid): "

CLAIMS = {
    "C01": dict(
        technique=_PBT + "differential against the harness's own SHA-256/length of the bytes it sent, over generated blob x corruption x 10 write paths x storage mode x zstd codec; compressed payloads judged by two independent decoders",
        text="Generated-input search through the full in-process stack: every case uploads one blob (pristine or with one corruption of data, size, hash, compression or framing) through one of the ten CAS write paths; acknowledged => logical bytes match the declared digest and the blob is then reported present and read back identically; pristine => acknowledged; anything else => error status and the claimed digest absent. Some cases start with the pristine blob already stored so that wrong-size re-uploads meet an existing entry.",
        note="Fresh cache per case; uploads that name an already-present digest (incl. the always-present empty blob) are outside the MUST classes because C16 allows the early return. Blobs up to ~3 MiB. FetchBlob upstream is a harness HTTP server on loopback.",
    ),    "C02": dict(
        technique=_PBT + "round-trip oracle against the original bytes over generated blob x writer/reader configuration x read path x offset x limit; zstd responses decoded by two independent decoders",
        text="Generated-input search: every case writes a blob under one (storage mode, zstd codec), re-opens the directory under another and reads it back through HTTP GET/HEAD (identity and zstd), BatchReadBlobs, ByteStream.Read (blobs/ and compressed-blobs/zstd/ at chunk-edge offsets and limits), GetTree, ActionResult inlining and the disk layer with size known/unknown; delivered bytes must equal the original range. Holds on everything explored; not a proof of absence.",
        note="Trusts SHA-256, klauspost/compress and libzstd as independent decoders; write path is the disk layer's Put (write paths are C01's domain); blobs up to ~3 MiB (4 chunks).",
    ),
}

_TODO = "check not built yet in this session (claimed once its check exists); technique applies"
NOT_APPLICABLE = {p: _TODO for p in ["C03", "C04", "C05", "C06", "C07", "C08", "C09", "C10", "C11", "C12", "C13", "C14", "C15", "C16", "C17", "C18", "C19", "C20"]}
