HOOK_COMMITS = ["1ae5c62"]
FIX_COMMITS = ["42a7f6e", "a52dade", "29629a0", "222b812", "c889ba9", "a52fe2a", "ab3e688"]

ENGINES = [
    {"name": "stack", "path": "harness/internal/stack", "serves_properties": ["C01", "C02"], "kind_free_text": "in-process server: real disk cache + HTTP handler on loopback TCP behind a ServeMux + gRPC over bufconn with panic-recording interceptors"},
    {"name": "gen", "path": "harness/internal/gen", "serves_properties": ["C01", "C02"], "kind_free_text": "rapid generators (blobs by size/content class, corruptions) and two independent zstd codecs"},
    {"name": "ev", "path": "harness/internal/ev", "serves_properties": ["C02"], "kind_free_text": "evidence counters, fingerprints, samples, known-findings lookup"},
]

_PBT = "property-based testing (pgregory.net/rapid): "

CLAIMS = {
    "C09": dict(
        technique=_PBT + "generated directory populations (independent format writer, Chtimes access times) with order / fit / content / accounting oracles on the restarted instance",
        text="Populations of 0..30 entries mixing the current layout in both storage modes, legacy flat and two-level ac/ cas/ raw/ layouts, duplicate files per key, lost+found and .DS_Store clutter, with a drawn permutation of access times and a new max_size above / equal to / below the rounded total or below the largest file; disk.New must succeed, keep one survivor per key (the most recently accessed), evict only entries older than every survivor, keep the survivors within max_size (and, without duplicates, evict no more than the surplus), serve every survivor unchanged through the new mode's reader, and have Stats and the directory match the index; later uploads evict the survivors in atime order.",
        note="tmpfs honours Chtimes; files are not read between Chtimes and start-up. .DS_Store inside a two-hex-digit leaf directory is not generated (the README does not promise it).",
    ),
    "C12": dict(
        technique=_PBT + "fault injection: generated backend fault scripts (stage x byte offset x size metadata) against a scripted cache.Proxy, the real httpproxy and the real grpcproxy, with an exact-content-or-miss oracle and resource-leak oracles",
        text="For every generated (storage mode, kind, blob, size known/unknown, read path, fault) the client sees the backend's exact bytes and size, a miss or an error; the next fault-free read is a hit with exact bytes and is then served locally; afterwards reserved = 0, directory = index, no descriptor points into the cache directory, no backend stream or connection stays open and no goroutine is parked in request frames. Fault-free: every accepted upload reaches the backend exactly once with the right metadata and a peer cache in the same mode (other codec) recovers the identical blob from it.",
        note="S3/GCS/Azure SDK fault paths are reached only through the shared disk layer (scripted proxy); the fault-free S3 path is exercised in C20's naming test. Content faults of equal length on headerless entries are outside the statement's trust model. Waiting for an aborted request to unwind is bounded (5 s) and a goroutine that stays parked is reported as a leak.",
    ),
    "C20": dict(
        technique=_PBT + "differential against an independent implementation of the cas.v2 format (both directions), byte-exact golden files, and a pinned reference naming function observed at recording backends",
        text="Read side: files produced by the harness's own writer with chunk sizes 4 KiB..4 MiB, several encoders/levels/checksum settings and arbitrary suffixes (plus header+identity, .v1, ac, raw files) must be served correctly by this build in both modes and codecs at offsets around the file's own chunk edges. Write side: every file this build writes, and every object it hands to a backend, must parse with the independent reader bit-exactly, decode chunk by chunk and as one plain zstd stream (two decoders) to the original, and be named per the v2 grammar. Naming: object / resource names recorded at an HTTP server, an in-process S3 (gofakes3) and a gRPC backend equal the pinned 2.x function (incl. unclean prefixes joined with path.Join) and are injective.",
        note="Azure object names are not observed (its constructor hard-wires the account URL); GCS shares the HTTP proxy code. Two hand-assembled golden files guard the independent codec against symmetric mistakes.",
    ),    "C06": dict(
        technique=_PBT + "differential against the harness's own reference traversal of the REAPI message (MUST-HIT / MUST-MISS) over generated ActionResult shapes x per-blob presence states; LRU-position oracle for 'a hit is a use'",
        text="Generated ActionResults (0..45 output files crossing the internal batch of 20, inline/by-digest mixes, Trees with root and child files, stdout/stderr digest/raw/both, empty-blob and duplicate references) with a drawn state per referenced blob (local, backend-only, absent, wrong stated size), with and without a scripted backend, uploaded over gRPC or HTTP and looked up over gRPC GetActionResult, HTTP GET and HTTP HEAD: hit iff the harness's traversal finds every reference present; misses are NOT_FOUND/404 only; after a hit every locally held referenced blob is more recent in the LRU order than fillers uploaded before the lookup.",
        note="'Evicted by earlier traffic' is represented by the absent state. Recency is read from the index snapshot hook (C05 establishes that eviction follows that order). Malformed Tree blobs are C14's.",
    ),
    "C11": dict(
        technique=_PBT + "grammar-based generation of ActionResults (valid / one invalid field) with a validity predicate and a round-trip oracle (proto.Equal modulo the documented server-side changes) across upload and read encodings",
        text="Generated messages over every ActionResult field, uploaded 1-3 times to one key through gRPC, HTTP protobuf and HTTP JSON (plain or zstd), read back through gRPC GetActionResult with every inline-request combination and HTTP GET as protobuf and JSON: valid => accepted, each invalid kind => rejected with all views of the key unchanged, hits equal the last accepted upload after normalising worker name and (digest, bytes) pairs, inlining iff requested and within the 3 MiB budget, de-inlined bytes present in the CAS, JSON view == protobuf view, stored bytes parse and validate.",
        note="Any payloads use a registered type only. Output directories with an empty path are not generated (statement silent). nil list elements are not expressible in JSON and are skipped for that encoding.",
    ),
    "C15": dict(
        technique=_PBT + "stateful model-based testing: three independent maps (CAS / validated AC / raw AC, AC keyed by instance when mangling is on) compared with EVERY namespace x key x instance read-back after every step",
        text="Generated histories of puts, overwrites and failing puts over a pool of hashes used as keys in all three namespaces, through gRPC and two HTTP front ends (validation on/off) mounted like main.go, with instance names that are empty, nested, contain ac/cas/blobs/64-hex segments, unicode or characters that need URL escaping, mangling on/off; after each step every (namespace, key, instance) is read over every front end (also with Accept-Encoding: zstd) and must equal its model map.",
        note="Large cache, so no eviction (cross-keyspace eviction interference is covered by C05's 'entry changed although not written' and order invariants over keys shared between keyspaces). Instance names are clean per README (no //, ./, ../).",
    ),
    "C18": dict(
        technique=_PBT + "boundary-value generation around the configured limits (limit-1, limit, limit+1, far above; tiny transport size for large logical size) with an accept/refuse decision oracle on every write path and every backend-read path",
        text="max_blob_size L x logical size relative to L x content x ten write paths x storage mode: size <= L accepted and present, size > L refused with a client error and nothing stored, GetCapabilities advertises L. max_proxy_blob_size P x backend object size relative to P x kind x {Get size known/unknown, Contains known/unknown, FindMissingBlobs, dependency check, HTTP GET/HEAD} x backend that can/cannot report sizes: nothing over P is served, cached or reported present, FindMissing never asks the backend about digests over P.",
        note="For inlined ActionResult blobs the enclosing message is itself an item subject to the limit; cases where it exceeds L are checked in the refuse direction only. Known finding F17 (see known-findings.txt) is excluded by construction and re-demonstrated by a probe.",
    ),    "C10": dict(
        technique=_PBT + "reference-model oracle: the response must equal the request filtered (order and multiplicity kept) by the harness's own presence predicate over a generated partition of digests",
        text="Generated request lists (0..300 digests, weighted around the internal batch size 20 and 40, duplicates, adversarial orders such as 'missing first, locally present last batch') over a pool partitioned into local / backend-only / both / absent / size-mismatched / empty blob / backend-but-over-max_proxy_blob_size, with and without a scripted backend that answers after per-digest delays, optionally under concurrent unrelated uploads, through gRPC and the disk layer; thorough tier repeats it under the race detector.",
        note="Backend is the scripted in-process cache.Proxy (honours hash and size). Concurrent traffic only touches other keys, as the statement says ('present throughout the call').",
    ),
    "C16": dict(
        technique=_PBT + "decision-table oracle derived from the statement over generated upload scripts (chunkings, finish placement, name shapes, protocol faults, pre-existing blobs)",
        text="Generated ByteStream.Write message sequences and QueryWriteStatus calls against a fresh cache: conformant uploads must succeed with committed_size = payload bytes sent (blob size for blobs/), already-present blobs must be acknowledged early (size, or -1 for compressed-blobs/) even when only the first message is ever sent, any protocol fault on an absent blob must fail and store nothing, QueryWriteStatus must mirror presence, and names with any REAPI-conformant instance prefix / trailing metadata must parse.",
        note="'Did not return early' is decided by looking for the server's Write handler in a goroutine dump after 8 s while the call is still open; anything less clear-cut exits 2. Half-close without finish_write is DONT-CARE (statement silent).",
    ),    "C03": dict(
        technique=_PBT + "stateful model-based testing (t.Repeat state machine) with an invariant after every step: running counters vs recomputation over the index snapshot plus harness-held reservations",
        text="Generated operation histories (puts, overwrites with other sizes, lookups, failing uploads, uploads HELD open mid-stream and later completed/aborted/corrupted, backend fetches with faults) on a small cache under pressure. After every step, including while requests are open: total = sum round4k(on-disk) + R, reserved = R, total <= max_size, logical total and item count exact, /status agrees; R is what the harness itself holds open. A second machine drives the LRU index directly (sizes at block and max_size edges, oversized reservations).",
        note="Requests overlap only by being held open between steps (real interleavings are C07's). Reservation admission for held uploads is predicted from the statement (size <= max_size and size + R <= max_size). max_size <= 2^50 in the direct LRU machine (values near MaxInt64 are not reachable through the GiB-valued setting).",
    ),
    "C04": dict(
        technique=_PBT + "stateful testing with a directory-vs-index oracle at quiescence; files re-read with an independent implementation of the cas.v2 format",
        text="Same history machine as C03 weighted towards failures at every stage (reservation refused, hash/size mismatch, reader error mid-stream, commit refused, held uploads aborted, backend fetches failing before/during/after the stream). Whenever nothing is in flight and the deletion backlog is exactly zero: the set of regular files equals the harness's own naming function applied to the index snapshot, lengths equal the recorded on-disk sizes, compressed CAS files parse and decode (independent reader, two zstd decoders) to the logical size and SHA-256 of the key, raw files are complete and hold the last accepted bytes.",
        note="Quiescence is observed through the verif hook VerifQueuedEvictionBytes (exact, polled). Backend content faults that keep the length (a bit-flip adversary) are outside C12's trust statement and are not injected for headerless entries.",
    ),
    "C05": dict(
        technique=_PBT + "stateful testing with history invariants (LRU order, pressure-only, minimality, presence, oversize) computed from a harness-side logical clock of uses and real file sizes",
        text="Sequential generated histories of puts (sizes relative to max_size, compressible or not, overwrites with larger/smaller values) and every lookup kind that must refresh recency (Get, Contains, FindMissingCasBlobs, validated-ActionResult dependency check). After each operation: no evicted entry was certainly used more recently than a survivor; evictions only if on-disk total + need > max_size; re-adding the most recently used victim would overflow; accepted uploads are present; items with logical size > max_size are rejected and evict nothing.",
        note="Uses real file sizes (stat) rather than the index's on-disk sizes, so a mis-accounted entry cannot hide an unnecessary eviction. Ties inside one multi-key operation are incomparable and tolerated; lookups with a mismatching size are not generated (the statement does not fix whether they are uses).",
    ),    "C01": dict(
        technique=_PBT + "differential against the harness's own SHA-256/length of the bytes it sent, over generated blob x corruption x 10 write paths x storage mode x zstd codec; compressed payloads judged by two independent decoders",
        text="Generated-input search through the full in-process stack: every case uploads one blob (pristine or with one corruption of data, size, hash, compression or framing) through one of the ten CAS write paths; acknowledged => logical bytes match the declared digest and the blob is then reported present and read back identically; pristine => acknowledged; anything else => error status and the claimed digest absent. Some cases start with the pristine blob already stored so that wrong-size re-uploads meet an existing entry.",
        note="Fresh cache per case; uploads that name an already-present digest (incl. the always-present empty blob) are outside the MUST classes because C16 allows the early return. Blobs up to ~3 MiB. FetchBlob upstream is a harness HTTP server on loopback.",
    ),    "C02": dict(
        technique=_PBT + "round-trip oracle against the original bytes over generated blob x writer/reader configuration x read path x offset x limit; zstd responses decoded by two independent decoders",
        text="Generated-input search: every case writes a blob under one (storage mode, zstd codec), re-opens the directory under another and reads it back through HTTP GET/HEAD (identity and zstd), BatchReadBlobs, ByteStream.Read (blobs/ and compressed-blobs/zstd/ at chunk-edge offsets and limits), GetTree, ActionResult inlining and the disk layer with size known/unknown; delivered bytes must equal the original range. Holds on everything explored; not a proof of absence.",
        note="Trusts SHA-256, klauspost/compress and libzstd as independent decoders; write path is the disk layer's Put (write paths are C01's domain); blobs up to ~3 MiB (4 chunks).",
    ),
}

_TODO = "check not built yet in this session (claimed once its check exists); technique applies"
NOT_APPLICABLE = {p: _TODO for p in ["C07", "C08", "C13", "C14", "C17", "C19"]}
