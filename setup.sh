#!/bin/bash
# Run once after a fresh restore, offline. Generates the harness go.mod/go.sum
# from /repo's and warms the build cache by compiling every check binary once.
set -uo pipefail
cd "$(dirname "$0")"
export GOFLAGS=-mod=mod GOPROXY=off
unset GOTOOLCHAIN GOSUMDB
./harness/gen-gomod.sh || exit 1
out=$(mktemp -d)
trap 'rm -rf "$out"' EXIT
cd harness
rc=0
for d in c[0-9][0-9]*; do
  [ -d "$d" ] || continue
  # packages that are compiled into a repository package through -overlay are built by ./check itself
  if grep -qs "go:build verif_overlay" "$d"/*.go; then continue; fi
  go test -c -tags verif -o "$out/$d.test" "./$d" || rc=1
done
go vet -tags verif ./internal/... >/dev/null 2>&1 || true
exit $rc
