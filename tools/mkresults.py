#!/usr/bin/env python3
"""mkresults.py <matrix output files...>  - writes /verif/seeded/RESULTS.md from the
lines printed by tools/matrix.sh (the last line per change wins)."""
import sys, os, json, time
rows = {}
for f in sys.argv[1:]:
    for line in open(f, errors="replace"):
        parts = line.split(" :: ", 1)
        head = parts[0].split()
        if len(head) < 3 or "-" not in head[0] or not head[1].startswith("C"):
            continue
        rows[head[0]] = (head[1], head[2], " ".join(head[3:]), (parts[1].strip() if len(parts) > 1 else ""))
base = os.path.join(os.path.dirname(os.path.abspath(__file__)), "..", "seeded")
out = ["# Seeded changes against the quick check of their property", "",
       "Produced by `tools/matrix.sh` (each change applied to a scratch copy of the repository, never to `/repo`),",
       "VERIF_SEED=1, written %s. CAUGHT = the check exited 1 with a VIOLATION line." % time.strftime("%Y-%m-%d %H:%M UTC", time.gmtime()), "",
       "| change | property | result | what the change does | first line of the report |", "|---|---|---|---|---|"]
n = {"CAUGHT": 0, "MISSED": 0, "INCONCLUSIVE": 0}
for name in sorted(rows):
    prop, verdict, extra, what = rows[name]
    n[verdict] = n.get(verdict, 0) + 1
    summ = ""
    try:
        summ = json.load(open(os.path.join(base, name, "meta.json"))).get("summary", "")
    except Exception:
        pass
    cell = lambda s: s.replace("|", "\\|").replace("\n", " ")
    out.append("| %s | %s | %s (%s) | %s | %s |" % (name, prop, verdict, extra, cell(summ[:200]), cell(what[:200])))
out += ["", "Totals: " + ", ".join("%s %d" % kv for kv in sorted(n.items()))]
open(os.path.join(base, "RESULTS.md"), "w").write("\n".join(out) + "\n")
print("\n".join(out[-1:]))
