#!/bin/bash
# matrix.sh [repo-dir] [names...] - runs every seeded change against the quick
# check of the property it breaks, on a scratch copy of the repository
# (never /repo itself), and prints one line per change.
set -u
REPO_SRC=${1:-/repo}; shift || true
VERIF_DIR=$(cd "$(dirname "$0")/.." && pwd)
work=$(mktemp -d /dev/shm/matrix-XXXX)
trap 'rm -rf "$work"' EXIT
git -C "$REPO_SRC" worktree add -q --detach "$work/repo" HEAD 2>/dev/null || cp -a "$REPO_SRC" "$work/repo"
names=${*:-$(ls "$VERIF_DIR/seeded" | grep -v RESULTS)}
for name in $names; do
  prop=${name%%-*}
  d="$VERIF_DIR/seeded/$name"
  [ -f "$d/patch.diff" ] || continue
  git -C "$work/repo" checkout -q -- . 
  if ! git -C "$work/repo" apply "$d/patch.diff" 2>/dev/null; then echo "$name $prop PATCH-DOES-NOT-APPLY"; continue; fi
  t0=$(date +%s)
  (cd "$VERIF_DIR" && VERIF_REPO="$work/repo" VERIF_EVIDENCE_DIR=/dev/shm/mut-evidence VERIF_SEED=${VERIF_SEED:-1} ./check "$prop" --tier quick > "$work/$name.log" 2>&1); rc=$?
  t1=$(date +%s)
  what=$(grep -a -m1 "rapid\] failed\|rapid\] flaky\|rapid\] panic\|^    [a-z0-9_]*_test.go:[0-9]*: [a-zA-Z]" "$work/$name.log" | cut -c1-260 | tr '\n' ' ')
  case $rc in 1) v=CAUGHT;; 0) v=MISSED;; *) v=INCONCLUSIVE;; esac
  echo "$name $prop $v rc=$rc $((t1-t0))s :: $what"
  rm -f "$VERIF_DIR"/replay/$prop-*seed${VERIF_SEED:-1}-* 2>/dev/null
done
git -C "$REPO_SRC" worktree remove --force "$work/repo" 2>/dev/null
git -C "$REPO_SRC" worktree prune 2>/dev/null
