#!/bin/bash
# mutcheck.sh <seeded-name> <check-id> [tier] - runs one check (not necessarily the
# one of the property the change was written for) against one seeded change on
# a scratch copy of /repo.
set -u
name=$1; prop=$2; tier=${3:-quick}
VERIF_DIR=$(cd "$(dirname "$0")/.." && pwd)
work=$(mktemp -d /dev/shm/mutcheck-XXXX)
trap 'git -C /repo worktree remove --force "$work/repo" 2>/dev/null; rm -rf "$work"; git -C /repo worktree prune' EXIT
git -C /repo worktree add -q --detach "$work/repo" HEAD || exit 2
patch="$VERIF_DIR/seeded/$name/patch.diff"; [ -d "$name" ] && patch="$name/patch.diff"
git -C "$work/repo" apply "$patch" || { echo "PATCH-DOES-NOT-APPLY"; exit 3; }
(cd "$VERIF_DIR" && VERIF_REPO="$work/repo" VERIF_EVIDENCE_DIR=/dev/shm/mut-evidence-$$ VERIF_SEED=${VERIF_SEED:-1} ./check "$prop" --tier "$tier" > "$work/out.log" 2>&1); rc=$?
what=$(grep -a -m1 "rapid\] failed\|rapid\] flaky\|rapid\] panic\|^    [a-z0-9_]*_test.go:[0-9]*: [a-zA-Z]" "$work/out.log" | cut -c1-300)
case $rc in 1) v=CAUGHT;; 0) v=MISSED;; *) v=INCONCLUSIVE;; esac
echo "$name by $prop: $v rc=$rc :: $what"
[ -n "${MUTCHECK_VERBOSE:-}" ] && grep -a -A14 "Original traceback\|rapid\] failed" "$work/out.log" | grep -a -v "engine.go\|draw " | cut -c1-700 | head -40
rm -rf /dev/shm/mut-evidence-$$
rm -f "$VERIF_DIR"/replay/$prop-*seed${VERIF_SEED:-1}-* 2>/dev/null
