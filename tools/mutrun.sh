#!/bin/bash
# mutrun.sh <seeded-name> <prop> [tier]  -- apply a seeded change to /repo, run the check, undo.
set -u
name=$1; prop=$2; tier=${3:-quick}
cd /repo || exit 2
if [ -n "$(git status --porcelain)" ]; then echo "/repo not clean"; exit 2; fi
git apply /verif/seeded/$name/patch.diff || { echo "patch does not apply"; exit 3; }
cd /verif && VERIF_EVIDENCE_DIR=/dev/shm/mut-evidence VERIF_SEED=${VERIF_SEED:-1} ./check $prop --tier $tier > /tmp/mutrun-$name-$prop.log 2>&1; rc=$?
git -C /repo checkout -- . 
grep -E "^VIOLATION|^KNOWN|tier=" /tmp/mutrun-$name-$prop.log | head -5
grep -E "failed after|panic after|flaky" /tmp/mutrun-$name-$prop.log | head -2 | cut -c1-400
echo "mutrun $name $prop rc=$rc"
rm -f /verif/replay/$prop-*seed${VERIF_SEED:-1}-* 2>/dev/null
exit $rc
