#!/bin/bash
# seedverify.sh <prop> <src-dir> <name>
# Confirms a seeded change independently in a scratch worktree of /repo:
#   demo passes on the clean tree, patch applies, existing suite passes with it,
#   demo fails with it. On success copies it to /verif/seeded/<name>/.
set -u
prop=$1; src=$2; name=$3
export GOFLAGS=-mod=mod GOPROXY=off
wt=/tmp/sv-$name-$$
git -C /repo worktree add -q --detach $wt HEAD || exit 2
cleanup() { git -C /repo worktree remove --force $wt >/dev/null 2>&1; rm -rf $wt; }
trap cleanup EXIT
dest=$(sed -n 's#^// *DEST: *##p' $src/demo_test.go | head -1 | tr -d ' ')
runline=$(sed -n 's#^// *RUN: *##p' $src/demo_test.go | head -1)
[ -z "$dest" ] && { echo "no DEST"; exit 2; }
demo=$wt/$dest/zz_seed_demo_test.go
cp $src/demo_test.go $demo
cd $wt
T=$(mktemp -d); export TMPDIR=$T
echo "== demo on clean tree"; eval "$runline" > $T/clean.log 2>&1; rc_clean=$?
tail -3 $T/clean.log
if ! git apply --check $src/patch.diff 2>/dev/null; then echo "PATCH DOES NOT APPLY"; rm -rf $T; exit 3; fi
git apply $src/patch.diff
rm -f $demo
echo "== suite with patch"; go build ./... && go test -vet=off -count=1 ./... > $T/suite.log 2>&1; rc_suite=$?
grep -v '^ok\|no test files' $T/suite.log | tail -5
# timing-sensitive tests of the suite fail now and then on a busy machine
# (with and without the patch): re-run only the packages that failed, twice at most
for attempt in 1 2; do
  [ $rc_suite -eq 0 ] && break
  failed=$(sed -n 's#^FAIL[ \t]\+\(github.com/buchgr/bazel-remote/v2[^ \t]*\).*#\1#p' $T/suite.log | sort -u | sed 's#github.com/buchgr/bazel-remote/v2#.#')
  [ -z "$failed" ] && break
  echo "== re-running failed packages (attempt $attempt): $failed"
  go test -vet=off -count=1 $failed > $T/suite.log 2>&1; rc_suite=$?
  grep -v '^ok\|no test files' $T/suite.log | tail -5
done
cp $src/demo_test.go $demo
echo "== demo with patch"; eval "$runline" > $T/mut.log 2>&1; rc_mut=$?
tail -3 $T/mut.log
rm -rf $T
echo "clean=$rc_clean suite=$rc_suite mutant=$rc_mut"
if [ $rc_clean -eq 0 ] && [ $rc_suite -eq 0 ] && [ $rc_mut -ne 0 ]; then
  mkdir -p /verif/seeded/$name
  cp $src/patch.diff /verif/seeded/$name/patch.diff
  cp $src/demo_test.go /verif/seeded/$name/demo_test.go
  python3 - "$src/meta.json" "/verif/seeded/$name/meta.json" "$prop" "$runline" <<'PY'
import json,sys
try: m=json.load(open(sys.argv[1]))
except Exception: m={}
out={"property":sys.argv[3],"summary":m.get("summary",""),"needs_to_manifest":m.get("needs_to_manifest",""),
     "confirmed_by_me":["demo passes on clean worktree of /repo HEAD","git apply ok","go build ./... && go test -vet=off -count=1 ./... all ok with patch","demo FAILS with patch: "+sys.argv[4]],
     "author_ran":m.get("ran",[])}
json.dump(out,open(sys.argv[2],"w"),indent=1)
PY
  echo "CONFIRMED -> /verif/seeded/$name"
  exit 0
fi
echo "NOT CONFIRMED"; exit 1
