package c06

import (
	"bytes"
	"context"
	"fmt"
	"testing"
	"time"

	"github.com/buchgr/bazel-remote/v2/cache"
	"github.com/buchgr/bazel-remote/v2/cache/disk"
	pb "github.com/buchgr/bazel-remote/v2/genproto/build/bazel/remote/execution/v2"
	"google.golang.org/grpc/codes"
	"google.golang.org/grpc/status"
	"google.golang.org/protobuf/proto"
	"pgregory.net/rapid"

	"verif/harness/internal/casfmt"
	"verif/harness/internal/cl"
	"verif/harness/internal/fproxy"
	"verif/harness/internal/gen"
	"verif/harness/internal/rt"
	"verif/harness/internal/stack"
)

// TestC06ManyRefsBackend aims at the dependency check's concurrent part: an
// ActionResult with many references, most of them answered by the backend
// workers, some answered "absent". The oracle is the same as in
// TestC06ActionCacheHit (a hit needs every reference present somewhere); the
// generator adds the schedule dimension: how long the backend takes per
// answer, and where the requesting goroutine is when the answers come in (a
// drawn pause at the build-tag guarded yield point "findmissing.wait", just
// before the request starts waiting for its backend lookups).
func TestC06ManyRefsBackend(t *testing.T) {
	rt.Check(t, rt.N(60, 600), func(t *rapid.T) {
		storage := rapid.SampledFrom([]string{"zstd", "uncompressed"}).Draw(t, "storage")
		px := fproxy.New()
		maxDelay := rapid.SampledFrom([]int{0, 0, 50, 500, 3000}).Draw(t, "maxDelayMicros")
		px.ContDelay = func(hash string) time.Duration {
			if maxDelay == 0 {
				return 0
			}
			return time.Duration((int(hash[0])*31+int(hash[1]))%maxDelay) * time.Microsecond
		}
		s, err := stack.New(stack.Opts{Storage: storage, Proxy: px})
		if err != nil {
			t.Fatal(err)
		}
		defer s.Close()
		pause := time.Duration(rapid.SampledFrom([]int{0, 0, 100, 2000, 10000}).Draw(t, "pauseMicros")) * time.Microsecond
		disk.VerifSetHook(func(point string) {
			if point == "findmissing.wait" && pause > 0 {
				time.Sleep(pause)
			}
		})
		defer disk.VerifSetHook(nil)

		n := rapid.SampledFrom([]int{1, 3, 19, 20, 21, 45, 120, 400}).Draw(t, "nrefs")
		where := rapid.SampledFrom([]string{"backend-all", "backend-all-but-one", "backend-all-but-one", "backend-none", "backend-half", "local-rest-backend"}).Draw(t, "where")
		absentAt := rapid.IntRange(0, n-1).Draw(t, "absentAt")
		ar := &pb.ActionResult{ExecutionMetadata: &pb.ExecutedActionMetadata{Worker: "w"}}
		absent := 0
		for i := 0; i < n; i++ {
			data := gen.Expand(uint64(i)+7000, 20+i%7, "rand")
			d := &pb.Digest{Hash: gen.SHA(data), SizeBytes: int64(len(data))}
			ar.OutputFiles = append(ar.OutputFiles, &pb.OutputFile{Path: fmt.Sprint("o/f", i), Digest: d})
			inBackend := false
			switch where {
			case "backend-all":
				inBackend = true
			case "backend-all-but-one":
				inBackend = i != absentAt
			case "backend-half":
				inBackend = i%2 == 0
			case "local-rest-backend":
				if i%3 == 0 {
					if err := s.Cache.Put(context.Background(), cache.CAS, d.Hash, d.SizeBytes, bytes.NewReader(data)); err != nil {
						t.Fatal(err)
					}
					px.Wait()
					px.Delete(cache.CAS, d.Hash) // locally only
					continue
				}
				inBackend = i != absentAt
			}
			if inBackend {
				px.Set(cache.CAS, d.Hash, fproxy.Obj{Stored: stored(storage, data), Logical: int64(len(data))})
			} else {
				absent++
			}
		}
		body, _ := proto.Marshal(ar)
		key := gen.SHA([]byte("many-refs"))
		if err := s.Cache.Put(context.Background(), cache.AC, key, int64(len(body)), bytes.NewReader(body)); err != nil {
			t.Fatal(err)
		}
		px.Wait()
		mustHit := absent == 0
		E.Case(fmt.Sprintf("manyrefs|%s|%d|%d|%d|%v", where, n, maxDelay, pause/time.Microsecond, mustHit), n >= 3, "manyrefs="+where, fmt.Sprintf("manyrefs-pause=%v", pause > 0), fmt.Sprintf("manyrefs-musthit=%v", mustHit))
		E.Sample("manyrefs/"+where, map[string]any{"refs": n, "absent_everywhere": absent, "backend_delay_max_us": maxDelay, "pause_before_wait_us": int(pause / time.Microsecond), "storage": storage})
		desc := fmt.Sprintf("refs=%d where=%s absent-everywhere=%d backend-delay<=%dus pause-before-wait=%v storage=%s", n, where, absent, maxDelay, pause, storage)
		for round := 0; round < 6; round++ {
			ctx, cancel := cl.Ctx()
			_, err := s.AC.GetActionResult(ctx, &pb.GetActionResultRequest{ActionDigest: &pb.Digest{Hash: key, SizeBytes: 1}})
			cancel()
			if mustHit && err != nil {
				t.Fatalf("gRPC lookup #%d: every reference is present (locally or in the backend) but the answer is %v: %s", round, err, desc)
			}
			if !mustHit && err == nil {
				t.Fatalf("gRPC lookup #%d: HIT although %d referenced blob(s) are absent everywhere: %s", round, absent, desc)
			}
			if !mustHit && status.Code(err) != codes.NotFound {
				t.Fatalf("gRPC lookup #%d: miss reported as %v, want NOT_FOUND: %s", round, err, desc)
			}
			r := cl.HTTPGet(s, "/ac/"+key, nil)
			if mustHit && r.Code != 200 {
				t.Fatalf("HTTP lookup #%d: every reference is present but the answer is %d: %s", round, r.Code, desc)
			}
			if !mustHit && r.Code != 404 {
				t.Fatalf("HTTP lookup #%d: answered %d although %d referenced blob(s) are absent everywhere: %s", round, r.Code, absent, desc)
			}
			if mustHit {
				// a hit may have pulled blobs in; push the question back to the backend
				break
			}
		}
	})
}

func stored(storage string, data []byte) []byte {
	if storage == "zstd" {
		return casfmt.Encode(data, gen.Chunk, func(b []byte) []byte { return gen.ZstdGo(b, 1, false) })
	}
	return data
}
