package c06

import (
	"bytes"
	"context"
	"fmt"
	"testing"

	"github.com/buchgr/bazel-remote/v2/cache"
	"github.com/buchgr/bazel-remote/v2/cache/disk"
	pb "github.com/buchgr/bazel-remote/v2/genproto/build/bazel/remote/execution/v2"
	"google.golang.org/grpc/codes"
	"google.golang.org/grpc/status"
	"google.golang.org/protobuf/proto"
	"pgregory.net/rapid"

	"verif/harness/internal/casfmt"
	"verif/harness/internal/cl"
	"verif/harness/internal/ev"
	"verif/harness/internal/fproxy"
	"verif/harness/internal/gen"
	"verif/harness/internal/rt"
	"verif/harness/internal/stack"
)

func TestMain(m *testing.M) { rt.Main(m, "C06") }

var E = ev.Get("C06")

const emptyHash = "e3b0c44298fc1c149afbf4c8996fb92427ae41e4649b934ca495991b7852b855"

type ref struct {
	what   string
	data   []byte
	digest *pb.Digest // as stated in the ActionResult / Tree
	state  string     // local | backend | absent | wrongsize | empty
}

type world struct {
	t       *rapid.T
	s       *stack.Stack
	px      *fproxy.Proxy
	storage string
	seq     int
	refs    []*ref
}

func (w *world) states() []string {
	st := []string{"local", "local", "local", "local", "local", "local", "absent", "wrongsize"}
	if w.px != nil {
		st = append(st, "backend", "backend")
	}
	return st
}

// newRef creates a fresh blob, puts it into the drawn state and returns the
// digest to state in the message.
func (w *world) newRef(what string, data []byte, allBad bool) *ref {
	w.seq++
	if data == nil {
		data = gen.Expand(uint64(w.seq)*7919, rapid.IntRange(1, 60).Draw(w.t, "blobSize"), "rand")
		data = append(data, byte(w.seq), byte(w.seq>>8))
	}
	state := "local"
	if allBad {
		bad := []string{"absent", "absent", "wrongsize"}
		if w.px != nil {
			bad = append(bad, "backend")
		}
		state = rapid.SampledFrom(bad).Draw(w.t, "badState")
	} else if rapid.IntRange(0, 5).Draw(w.t, "stateRoll") == 0 {
		state = rapid.SampledFrom(w.states()).Draw(w.t, "state")
	}
	r := &ref{what: what, data: data, state: state, digest: &pb.Digest{Hash: gen.SHA(data), SizeBytes: int64(len(data))}}
	w.place(r)
	w.refs = append(w.refs, r)
	return r
}

func (w *world) place(r *ref) {
	h := gen.SHA(r.data)
	switch r.state {
	case "local":
		if err := w.s.Cache.Put(context.Background(), cache.CAS, h, int64(len(r.data)), bytes.NewReader(r.data)); err != nil {
			w.t.Fatal(err)
		}
	case "backend":
		stored := r.data
		if w.storage == "zstd" {
			stored = casfmt.Encode(r.data, gen.Chunk, func(b []byte) []byte { return gen.ZstdGo(b, 1, false) })
		}
		w.px.Set(cache.CAS, h, fproxy.Obj{Stored: stored, Logical: int64(len(r.data))})
	case "wrongsize":
		// the blob exists, but the message states another size
		if err := w.s.Cache.Put(context.Background(), cache.CAS, h, int64(len(r.data)), bytes.NewReader(r.data)); err != nil {
			w.t.Fatal(err)
		}
		// other stated sizes: one off, far off, and the two small constants 0 and 1
		// (0 is a well-formed size; only the empty blob's hash goes with it)
		r.digest = &pb.Digest{Hash: h, SizeBytes: int64(len(r.data)) + int64(rapid.SampledFrom([]int{1, -1, 100, -len(r.data), 1 - len(r.data)}).Draw(w.t, "sizeDelta"))}
		if r.digest.SizeBytes < 0 || r.digest.SizeBytes == int64(len(r.data)) {
			r.digest.SizeBytes = int64(len(r.data)) + 1
		}
		if r.digest.SizeBytes == 0 {
			E.Label("wrongsize=stated-0")
		}
	case "absent":
	}
}

func present(r *ref) bool { return r.state == "local" || r.state == "backend" || r.state == "empty" }

func TestC06ActionCacheHit(t *testing.T) {
	E.SetRule("rapid draws ActionResult shapes: 0..45 output files (crossing the internal batch of 20), each inline or by digest, 0..3 output directories whose Tree blobs have root files and 0..3 child directories, stdout/stderr as digest / raw / both / neither, empty-blob digests, duplicate references; per referenced blob (and per Tree blob) a state in {present locally, present only in the backend, absent, stated size != stored size}; with and without a scripted backend (delayed answers); uploaded through gRPC or HTTP; queried through gRPC GetActionResult, HTTP GET and HTTP HEAD of /ac/. Oracle: the harness's own reference traversal of the REAPI message decides MUST-HIT (every reference present with the stated size) or MUST-MISS (NOT_FOUND / 404, never a partial message or another error); after a hit every locally held referenced blob is more recent in the LRU order than filler blobs uploaded before the lookup. non-trivial: >=1 reference and (>=1 not present, or >=21 references, or a Tree with children, or a backend-only blob); distinct by (shape class, state vector class, backend, upload route)")
	rt.Check(t, rt.N(450, 3500), func(t *rapid.T) {
		storage := rapid.SampledFrom([]string{"zstd", "uncompressed"}).Draw(t, "storage")
		withBackend := rapid.Bool().Draw(t, "backend")
		o := stack.Opts{Storage: storage}
		w := &world{t: t, storage: storage}
		if withBackend {
			w.px = fproxy.New()
			o.Proxy = w.px
		}
		s, err := stack.New(o)
		if err != nil {
			t.Fatal(err)
		}
		defer s.Close()
		w.s = s

		// shape
		var nfiles int
		switch rapid.IntRange(0, 4).Draw(t, "filesClass") {
		case 0:
			nfiles = 0
		case 1:
			nfiles = rapid.IntRange(1, 5).Draw(t, "nfiles")
		case 2:
			nfiles = rapid.IntRange(18, 23).Draw(t, "nfiles")
		case 3:
			nfiles = rapid.IntRange(38, 45).Draw(t, "nfiles")
		default:
			nfiles = rapid.IntRange(6, 30).Draw(t, "nfiles")
		}
		// Most cases have at most one bad reference so that hits and near-misses dominate.
		badBudget := rapid.SampledFrom([]string{"none", "none", "one", "one", "one", "many"}).Draw(t, "badBudget")
		badAt := -1
		ar := &pb.ActionResult{ExitCode: 0, ExecutionMetadata: &pb.ExecutedActionMetadata{Worker: "w"}}
		via := rapid.SampledFrom([]string{"grpc", "http"}).Draw(t, "uploadVia")
		type planned struct{ mk func(bad bool) }
		var plan []func(bad bool)
		hasChildren := false
		for i := 0; i < nfiles; i++ {
			i := i
			plan = append(plan, func(bad bool) {
				f := &pb.OutputFile{Path: fmt.Sprintf("out/f%d", i)}
				kind := rapid.SampledFrom([]string{"digest", "digest", "digest", "inline", "empty", "dup"}).Draw(t, "fileKind")
				switch {
				case kind == "inline":
					data := gen.Expand(uint64(i)+99, rapid.IntRange(1, 40).Draw(t, "inlineSize"), "text")
					f.Contents = data
					f.Digest = &pb.Digest{Hash: gen.SHA(data), SizeBytes: int64(len(data))}
				case kind == "empty":
					f.Digest = &pb.Digest{Hash: emptyHash, SizeBytes: 0}
					w.refs = append(w.refs, &ref{what: f.Path, state: "empty", digest: f.Digest})
				case kind == "dup" && len(w.refs) > 0 && !bad:
					r := w.refs[rapid.IntRange(0, len(w.refs)-1).Draw(t, "dupOf")]
					f.Digest = r.digest
					w.refs = append(w.refs, &ref{what: f.Path + "(dup)", state: r.state, digest: r.digest, data: r.data})
				default:
					f.Digest = w.newRefBudget(f.Path, bad, badBudget).digest
				}
				ar.OutputFiles = append(ar.OutputFiles, f)
			})
		}
		ndirs := rapid.IntRange(0, 3).Draw(t, "ndirs")
		if rapid.Bool().Draw(t, "nodirs") {
			ndirs = 0
		}
		for d := 0; d < ndirs; d++ {
			d := d
			plan = append(plan, func(bad bool) {
				tree := &pb.Tree{Root: &pb.Directory{}}
				nroot := rapid.IntRange(0, 3).Draw(t, "nroot")
				for j := 0; j < nroot; j++ {
					r := w.newRefBudget(fmt.Sprintf("dir%d/root/f%d", d, j), false, badBudgetFor(badBudget))
					tree.Root.Files = append(tree.Root.Files, &pb.FileNode{Name: fmt.Sprintf("f%d", j), Digest: r.digest})
				}
				nch := rapid.IntRange(0, 3).Draw(t, "nchildren")
				for c := 0; c < nch; c++ {
					hasChildren = true
					child := &pb.Directory{}
					nf := rapid.IntRange(0, 3).Draw(t, "nchildfiles")
					for j := 0; j < nf; j++ {
						r := w.newRefBudget(fmt.Sprintf("dir%d/child%d/f%d", d, c, j), false, badBudgetFor(badBudget))
						child.Files = append(child.Files, &pb.FileNode{Name: fmt.Sprintf("f%d", j), Digest: r.digest})
					}
					cb, _ := proto.Marshal(child)
					tree.Root.Directories = append(tree.Root.Directories, &pb.DirectoryNode{Name: fmt.Sprintf("c%d", c), Digest: &pb.Digest{Hash: gen.SHA(cb), SizeBytes: int64(len(cb))}})
					tree.Children = append(tree.Children, child)
				}
				// Two trees with the same shape (no files, equally many empty children)
				// would be one blob: a tree that is meant to be absent would be present
				// through its twin. Every tree carries a symlink named after its
				// output directory.
				tree.Root.Symlinks = []*pb.SymlinkNode{{Name: fmt.Sprintf("s%d", d), Target: "t"}}
				tb, _ := proto.Marshal(tree)
				w.seq++
				tr := &ref{what: fmt.Sprintf("dir%d(tree)", d), data: tb, state: "local", digest: &pb.Digest{Hash: gen.SHA(tb), SizeBytes: int64(len(tb))}}
				if bad || (badBudget == "many" && rapid.IntRange(0, 3).Draw(t, "treeBad") == 0) {
					ts := []string{"absent", "wrongsize"}
					if w.px != nil {
						ts = append(ts, "backend", "backend")
					}
					tr.state = rapid.SampledFrom(ts).Draw(t, "treeState")
				}
				w.place(tr)
				w.refs = append(w.refs, tr)
				ar.OutputDirectories = append(ar.OutputDirectories, &pb.OutputDirectory{Path: fmt.Sprintf("out/dir%d", d), TreeDigest: tr.digest})
			})
		}
		for _, which := range []string{"stdout", "stderr"} {
			which := which
			mode := rapid.SampledFrom([]string{"none", "digest", "digest", "raw", "both"}).Draw(t, which+"Mode")
			if mode == "none" {
				continue
			}
			plan = append(plan, func(bad bool) {
				var dg *pb.Digest
				var raw []byte
				switch mode {
				case "digest":
					dg = w.newRefBudget(which, bad, badBudget).digest
				case "raw":
					raw = []byte(which + " inline text")
				case "both":
					raw = gen.Expand(uint64(len(which)), 30, "text")
					if via == "grpc" {
						// the gRPC upload also stores the inlined bytes in the CAS
						dg = &pb.Digest{Hash: gen.SHA(raw), SizeBytes: int64(len(raw))}
						w.refs = append(w.refs, &ref{what: which + "(raw+digest)", data: raw, state: "local", digest: dg})
					} else {
						r := w.newRefBudget(which+"(raw+digest)", bad, badBudget)
						dg = r.digest
						if r.state == "wrongsize" {
							// keep the upload itself valid: raw must match its digest when both are given over gRPC only
						}
						raw = nil
						raw = append(raw, r.data...)
					}
				}
				if which == "stdout" {
					ar.StdoutDigest, ar.StdoutRaw = dg, raw
				} else {
					ar.StderrDigest, ar.StderrRaw = dg, raw
				}
			})
		}
		if badBudget == "one" && len(plan) > 0 {
			badAt = rapid.IntRange(0, len(plan)-1).Draw(t, "badAt")
		}
		for i, f := range plan {
			f(i == badAt)
		}

		// fillers: uploaded after the referenced blobs, before the lookup
		var fillers []string
		for i := 0; i < 3; i++ {
			data := gen.Expand(uint64(900+i), 20, "rand")
			h := gen.SHA(data)
			if err := s.Cache.Put(context.Background(), cache.CAS, h, 20, bytes.NewReader(data)); err != nil {
				t.Fatal(err)
			}
			fillers = append(fillers, "cas/"+h)
		}

		// upload the ActionResult
		key := gen.SHA([]byte("action-key"))
		ctx, cancel := cl.Ctx()
		defer cancel()
		if via == "grpc" {
			if _, err := s.AC.UpdateActionResult(ctx, &pb.UpdateActionResultRequest{ActionDigest: &pb.Digest{Hash: key, SizeBytes: 1}, ActionResult: ar}); err != nil {
				t.Fatalf("UpdateActionResult of a valid message failed: %v", err)
			}
		} else {
			body, _ := proto.Marshal(ar)
			if resp := cl.HTTPPut(s, "/ac/"+key, nil, body); resp.Code != 200 {
				t.Fatalf("HTTP PUT /ac/ of a valid message: %d %s", resp.Code, resp.Body)
			}
		}
		// more fillers after the AC upload too (the entry itself is also "used" by the lookup)
		{
			data := gen.Expand(999, 21, "rand")
			h := gen.SHA(data)
			_ = s.Cache.Put(context.Background(), cache.CAS, h, 21, bytes.NewReader(data))
			fillers = append(fillers, "cas/"+h)
		}

		mustHit := true
		nbad, nbackend := 0, 0
		var badList []string
		for _, r := range w.refs {
			if !present(r) {
				mustHit = false
				nbad++
				badList = append(badList, r.what+":"+r.state)
			}
			if r.state == "backend" {
				nbackend++
			}
		}
		shape := fmt.Sprintf("files=%s,dirs=%d,children=%v", nclass(nfiles), ndirs, hasChildren)
		stateCls := fmt.Sprintf("bad=%s,backendonly=%v", nclass(nbad), nbackend > 0)
		nontrivial := len(w.refs) > 0 && (nbad > 0 || len(w.refs) >= 21 || hasChildren || nbackend > 0)
		E.Case(shape+"|"+stateCls+fmt.Sprintf("|%v|%s", withBackend, via), nontrivial,
			"files="+nclass(nfiles), fmt.Sprintf("dirs=%d", ndirs), fmt.Sprintf("mustHit=%v", mustHit), fmt.Sprintf("backend=%v", withBackend), "via="+via, "bad="+nclass(nbad), fmt.Sprintf("refs>=21=%v", len(w.refs) >= 21))
		E.Sample(fmt.Sprintf("hit=%v,%s", mustHit, nclass(len(w.refs))), map[string]any{"refs": len(w.refs), "files": nfiles, "dirs": ndirs, "bad": badList, "backend": withBackend, "via": via, "must_hit": mustHit})
		ctxs := fmt.Sprintf("refs=%d files=%d dirs=%d bad=%v backend=%v via=%s storage=%s", len(w.refs), nfiles, ndirs, badList, withBackend, via, storage)

		queries := []string{"grpc", "http-get", "http-head"}
		firstQ := rapid.IntRange(0, 2).Draw(t, "firstQuery")
		queries[0], queries[firstQ] = queries[firstQ], queries[0]
		for qi, q := range queries {
			var hit bool
			var detail string
			switch q {
			case "grpc":
				res, err := s.AC.GetActionResult(ctx, &pb.GetActionResultRequest{ActionDigest: &pb.Digest{Hash: key, SizeBytes: 1}})
				if err == nil {
					hit = true
					if len(res.OutputFiles) != len(ar.OutputFiles) || len(res.OutputDirectories) != len(ar.OutputDirectories) {
						t.Fatalf("partial ActionResult returned (%d/%d files, %d/%d dirs): %s", len(res.OutputFiles), len(ar.OutputFiles), len(res.OutputDirectories), len(ar.OutputDirectories), ctxs)
					}
				} else if status.Code(err) != codes.NotFound {
					t.Fatalf("GetActionResult answered %v (neither a hit nor NOT_FOUND): %s", err, ctxs)
				}
				detail = fmt.Sprint(err)
			case "http-get":
				r := cl.HTTPGet(s, "/ac/"+key, nil)
				hit = r.Code == 200
				if !hit && r.Code != 404 {
					t.Fatalf("HTTP GET /ac/ answered %d: %s", r.Code, ctxs)
				}
				if hit {
					var got pb.ActionResult
					if err := proto.Unmarshal(r.Body, &got); err != nil || len(got.OutputFiles) != len(ar.OutputFiles) {
						t.Fatalf("HTTP GET /ac/ returned a partial/unparsable message: %s", ctxs)
					}
				}
				detail = fmt.Sprint(r.Code)
			case "http-head":
				r := cl.HTTPHead(s, "/ac/"+key)
				hit = r.Code == 200
				if !hit && r.Code != 404 {
					t.Fatalf("HTTP HEAD /ac/ answered %d: %s", r.Code, ctxs)
				}
				detail = fmt.Sprint(r.Code)
			}
			if hit != mustHit {
				t.Fatalf("%s: hit=%v but the harness's traversal says mustHit=%v (%s): %s", q, hit, mustHit, detail, ctxs)
			}
			if qi == 0 && hit {
				// recency: every locally held referenced blob is now more recent than every filler
				pos := map[string]int{}
				for i, e := range disk.VerifIndexSnapshot(s.Cache) {
					pos[e.Key] = i
				}
				worstFiller := 1 << 30
				for _, f := range fillers {
					if p, ok := pos[f]; ok && p < worstFiller {
						worstFiller = p
					}
				}
				for _, r := range w.refs {
					if r.state == "empty" || r.data == nil {
						continue
					}
					k := "cas/" + gen.SHA(r.data)
					p, ok := pos[k]
					if !ok {
						if r.state == "local" {
							t.Fatalf("referenced local blob %s vanished: %s", r.what, ctxs)
						}
						continue
					}
					if r.state == "local" && p > worstFiller {
						t.Fatalf("after a hit through %s the referenced blob %s (LRU position %d) is less recently used than a filler uploaded before the lookup (position %d): %s", q, r.what, p, worstFiller, ctxs)
					}
				}
				E.Label("recency-checked")
			}
		}
		if s.Panics() > 0 {
			t.Fatalf("handler panic: %v: %s", s.PanicLog, ctxs)
		}
	})
}

func badBudgetFor(b string) string {
	if b == "many" {
		return "many"
	}
	return "none"
}

func (w *world) newRefBudget(what string, bad bool, budget string) *ref {
	switch {
	case bad:
		// exactly this reference is in a drawn (possibly bad) state
		r := w.newRef(what, nil, true)
		return r
	case budget == "many":
		return w.newRef(what, nil, false)
	default:
		w.seq++
		data := gen.Expand(uint64(w.seq)*7919, rapid.IntRange(1, 60).Draw(w.t, "blobSize"), "rand")
		data = append(data, byte(w.seq), byte(w.seq>>8))
		state := "local"
		if w.px != nil && rapid.IntRange(0, 7).Draw(w.t, "backendRoll") == 0 {
			state = "backend"
		}
		r := &ref{what: what, data: data, state: state, digest: &pb.Digest{Hash: gen.SHA(data), SizeBytes: int64(len(data))}}
		w.place(r)
		w.refs = append(w.refs, r)
		return r
	}
}

func nclass(n int) string {
	switch {
	case n == 0:
		return "0"
	case n == 1:
		return "1"
	case n <= 5:
		return "2-5"
	case n <= 19:
		return "6-19"
	case n <= 22:
		return "20-22"
	case n <= 39:
		return "23-39"
	}
	return ">=40"
}
