package c10

import (
	"bytes"
	"context"
	"fmt"
	"sync"
	"testing"
	"time"

	"github.com/buchgr/bazel-remote/v2/cache"
	pb "github.com/buchgr/bazel-remote/v2/genproto/build/bazel/remote/execution/v2"
	"pgregory.net/rapid"

	"verif/harness/internal/cl"
	"verif/harness/internal/ev"
	"verif/harness/internal/fproxy"
	"verif/harness/internal/gen"
	"verif/harness/internal/rt"
	"verif/harness/internal/stack"
)

func TestMain(m *testing.M) { rt.Main(m, "C10") }

var E = ev.Get("C10")

const emptyHash = "e3b0c44298fc1c149afbf4c8996fb92427ae41e4649b934ca495991b7852b855"

type entry struct {
	d     *pb.Digest
	class string // local | backend | absent | sizemismatch | empty | backend-oversize | local+backend
	want  bool   // present?
}

func lenClass(n int) string {
	switch {
	case n == 0:
		return "0"
	case n < 19:
		return "1-18"
	case n <= 21:
		return "19-21"
	case n < 39:
		return "22-38"
	case n <= 41:
		return "39-41"
	case n <= 100:
		return "42-100"
	}
	return ">100"
}

func TestC10FindMissing(t *testing.T) {
	E.SetRule("rapid draws a pool of digests partitioned into local / backend-only / local+backend / absent / size-mismatched (hash present, other size) / empty blob / backend-only but larger than max_proxy_blob_size; request lists of length 0..300 (weighted around 19-21 and 39-41) with duplicates in any order; with and without a scripted backend whose Contains answers after drawn delays (completion order scrambled); optionally while a goroutine uploads unrelated blobs; through gRPC FindMissingBlobs or the disk layer. Oracle: response = request filtered, in order and with multiplicity, by the harness's own presence predicate. non-trivial: length > 20 with >=1 missing and >=1 present, or a duplicate, or a backend-only digest; distinct by (length class, set of partition classes, backend, route)")
	rt.Check(t, rt.N(500, 4000), func(t *rapid.T) {
		withBackend := rapid.Bool().Draw(t, "backend")
		storage := rapid.SampledFrom([]string{"zstd", "uncompressed"}).Draw(t, "storage")
		var px *fproxy.Proxy
		o := stack.Opts{Storage: storage}
		proxyMax := int64(0)
		if withBackend {
			px = fproxy.New()
			o.Proxy = px
			if rapid.Bool().Draw(t, "proxyLimit") {
				proxyMax = int64(rapid.IntRange(50, 150).Draw(t, "proxyMax"))
				o.ProxyMax = proxyMax
			}
			// a backend that cannot tell sizes (HTTP / S3 / Azure with compressed
			// objects) answers existence checks with "present, size unknown"
			px.ContainsSizeUnknown = rapid.IntRange(0, 2).Draw(t, "backendSizeUnknown") == 0
			if px.ContainsSizeUnknown {
				E.Label("backend=size-unknown")
			}
			if rapid.Bool().Draw(t, "delays") {
				maxDelay := rapid.SampledFrom([]int{200, 1000, 3000, 20000}).Draw(t, "maxDelayMicros")
				px.ContDelay = func(hash string) time.Duration {
					// deterministic per hash
					return time.Duration(int(hash[0])*int(hash[1])%maxDelay) * time.Microsecond
				}
			}
		}
		s, err := stack.New(o)
		if err != nil {
			t.Fatal(err)
		}
		defer s.Close()

		// pool
		npool := rapid.IntRange(1, 14).Draw(t, "npool")
		var pool []entry
		classes := []string{"local", "local", "absent", "absent", "empty"}
		if px == nil || !px.ContainsSizeUnknown {
			// (uploads are written through: behind a backend that does not know sizes
			// a locally mis-sized digest is "present" on the backend's word)
			classes = append(classes, "sizemismatch")
		}
		if withBackend {
			classes = append(classes, "backend", "backend", "local+backend", "backend-oversize")
			if !px.ContainsSizeUnknown {
				// (a backend that does not know sizes cannot notice a stated size that is wrong)
				classes = append(classes, "backend-sizemismatch")
			}
		}
		for i := 0; i < npool; i++ {
			class := rapid.SampledFrom(classes).Draw(t, "class")
			size := rapid.IntRange(1, 200).Draw(t, "size")
			if class == "backend-oversize" {
				if proxyMax == 0 {
					class = "backend"
				} else {
					size = int(proxyMax) + rapid.IntRange(1, 50).Draw(t, "over")
				}
			} else if proxyMax > 0 && (class == "backend" || class == "local+backend") {
				size = rapid.IntRange(1, int(proxyMax)).Draw(t, "sizeUnderLimit")
				if rapid.IntRange(0, 3).Draw(t, "atLimit") == 0 {
					size = int(proxyMax)
				}
			}
			data := gen.Expand(uint64(i)+1, size, "rand")
			h := gen.SHA(data)
			d := &pb.Digest{Hash: h, SizeBytes: int64(size)}
			e := entry{d: d, class: class}
			switch class {
			case "local":
				put(t, s, h, data)
				e.want = true
			case "backend":
				px.Set(cache.CAS, h, fproxy.Obj{Stored: data, Logical: int64(size)})
				e.want = true
			case "local+backend":
				put(t, s, h, data)
				px.Set(cache.CAS, h, fproxy.Obj{Stored: data, Logical: int64(size)})
				e.want = true
			case "absent":
			case "sizemismatch":
				put(t, s, h, data)
				e.d = &pb.Digest{Hash: h, SizeBytes: int64(size) + int64(rapid.SampledFrom([]int{-1, 1, 7}).Draw(t, "delta"))}
				if e.d.SizeBytes <= 0 {
					e.d.SizeBytes = int64(size) + 1
				}
			case "backend-sizemismatch":
				px.Set(cache.CAS, h, fproxy.Obj{Stored: data, Logical: int64(size)})
				e.d = &pb.Digest{Hash: h, SizeBytes: int64(size) + 1}
				if proxyMax > 0 && e.d.SizeBytes > proxyMax {
					e.d.SizeBytes = int64(size) - 1
					if e.d.SizeBytes == 0 {
						e.d.SizeBytes = 2
					}
				}
			case "empty":
				e.d = &pb.Digest{Hash: emptyHash, SizeBytes: 0}
				e.want = true
			case "backend-oversize":
				px.Set(cache.CAS, h, fproxy.Obj{Stored: data, Logical: int64(size)})
				e.want = false // larger than max_proxy_blob_size: not present on the strength of the backend
			}
			pool = append(pool, e)
		}

		nreq := rapid.IntRange(1, 3).Draw(t, "nrequests")
		for q := 0; q < nreq; q++ {
			var n int
			switch rapid.IntRange(0, 5).Draw(t, "lenClass") {
			case 0:
				n = rapid.IntRange(0, 5).Draw(t, "len")
			case 1:
				n = rapid.IntRange(19, 21).Draw(t, "len")
			case 2:
				n = rapid.IntRange(39, 41).Draw(t, "len")
			case 3:
				n = rapid.IntRange(6, 70).Draw(t, "len")
			case 4:
				n = rapid.IntRange(22, 45).Draw(t, "len")
			default:
				n = rapid.IntRange(70, 300).Draw(t, "len")
			}
			var req []*pb.Digest
			var want []*pb.Digest
			seen := map[string]int{}
			classSet := map[string]bool{}
			npresent, nmissing := 0, 0
			// optionally force "last batch fully local" shapes: order by class
			order := rapid.SampledFrom([]string{"random", "random", "missing-first", "present-last-batch"}).Draw(t, "order")
			idxs := make([]int, n)
			for i := range idxs {
				idxs[i] = rapid.IntRange(0, len(pool)-1).Draw(t, "pick")
			}
			if order != "random" && n > 20 {
				// stable partition: indices whose entry is locally present go last
				var a, b []int
				for _, ix := range idxs {
					c := pool[ix].class
					if c == "local" || c == "local+backend" || c == "empty" {
						b = append(b, ix)
					} else {
						a = append(a, ix)
					}
				}
				idxs = append(a, b...)
			}
			for _, ix := range idxs {
				e := pool[ix]
				req = append(req, &pb.Digest{Hash: e.d.Hash, SizeBytes: e.d.SizeBytes})
				seen[e.d.Hash+fmt.Sprint(e.d.SizeBytes)]++
				classSet[e.class] = true
				if e.want {
					npresent++
				} else {
					nmissing++
					want = append(want, e.d)
				}
			}
			dup := false
			for _, c := range seen {
				if c > 1 {
					dup = true
				}
			}
			route := rapid.SampledFrom([]string{"grpc", "disk"}).Draw(t, "route")
			traffic := rapid.Bool().Draw(t, "traffic")
			var wg sync.WaitGroup
			stop := make(chan struct{})
			if traffic {
				wg.Add(1)
				go func() {
					defer wg.Done()
					for i := 0; ; i++ {
						select {
						case <-stop:
							return
						default:
						}
						data := gen.Expand(uint64(1000000+i+q*1000), 64, "rand")
						_ = s.Cache.Put(context.Background(), cache.CAS, gen.SHA(data), 64, bytes.NewReader(data))
					}
				}()
			}
			var got []*pb.Digest
			var err error
			if route == "grpc" {
				got, err = cl.FindMissing(s, rapid.SampledFrom([]string{"", "inst"}).Draw(t, "instance"), req)
			} else {
				cp := make([]*pb.Digest, len(req))
				for i, d := range req {
					cp[i] = &pb.Digest{Hash: d.Hash, SizeBytes: d.SizeBytes}
				}
				got, err = s.Cache.FindMissingCasBlobs(context.Background(), cp)
			}
			close(stop)
			wg.Wait()
			var cs []string
			for _, c := range []string{"local", "backend", "local+backend", "absent", "sizemismatch", "backend-sizemismatch", "empty", "backend-oversize"} {
				if classSet[c] {
					cs = append(cs, c)
				}
			}
			nontrivial := (n > 20 && npresent > 0 && nmissing > 0) || dup || classSet["backend"]
			fp := fmt.Sprintf("%s|%v|%v|%s|%v", lenClass(n), cs, withBackend, route, order)
			lbl := []string{"len=" + lenClass(n), "route=" + route, fmt.Sprintf("backend=%v", withBackend), fmt.Sprintf("traffic=%v", traffic), "order=" + order}
			for _, c := range cs {
				lbl = append(lbl, "class="+c)
			}
			E.Case(fp, nontrivial, lbl...)
			E.Sample(lenClass(n)+"/"+route, map[string]any{"len": n, "classes": cs, "backend": withBackend, "proxy_max": proxyMax, "route": route, "present": npresent, "missing": nmissing, "order": order})
			if err != nil {
				t.Fatalf("FindMissingBlobs failed for well-formed digests: %v", err)
			}
			if len(got) != len(want) {
				t.Fatalf("FindMissingBlobs(%d digests, classes %v, backend=%v, route=%s): %d reported missing, want %d\n got: %v\nwant: %v", n, cs, withBackend, route, len(got), len(want), fmtDs(got), fmtDs(want))
			}
			for i := range got {
				if got[i].Hash != want[i].Hash || got[i].SizeBytes != want[i].SizeBytes {
					t.Fatalf("FindMissingBlobs: position %d is %s/%d, want %s/%d (order/multiplicity not preserved)\n got: %v\nwant: %v", i, got[i].Hash[:8], got[i].SizeBytes, want[i].Hash[:8], want[i].SizeBytes, fmtDs(got), fmtDs(want))
				}
			}
			if px != nil && proxyMax > 0 {
				for _, c := range px.ContCallsCopy() {
					var h string
					var sz int64
					fmt.Sscanf(c, "cas/%64s", &h)
					fmt.Sscanf(c[len("cas/")+65:], "%d", &sz)
					if sz > proxyMax {
						t.Fatalf("backend was asked about %s although it exceeds max_proxy_blob_size %d", c, proxyMax)
					}
				}
			}
		}
		if s.Panics() > 0 {
			t.Fatalf("panic: %v", s.PanicLog)
		}
	})
}

func put(t *rapid.T, s *stack.Stack, h string, data []byte) {
	if err := s.Cache.Put(context.Background(), cache.CAS, h, int64(len(data)), bytes.NewReader(data)); err != nil {
		t.Fatal(err)
	}
}

func fmtDs(ds []*pb.Digest) []string {
	var out []string
	for _, d := range ds {
		out = append(out, fmt.Sprintf("%s/%d", d.Hash[:6], d.SizeBytes))
	}
	return out
}
