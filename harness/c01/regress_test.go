package c01

import (
	"testing"

	pb "github.com/buchgr/bazel-remote/v2/genproto/build/bazel/remote/execution/v2"

	"verif/harness/internal/cl"
	"verif/harness/internal/gen"
	"verif/harness/internal/stack"
)

// Plain (library-free) regression cases for defects that were found by the
// generated search and repaired by a "fix:" commit. They fail again if the
// defect returns, whatever the generator's distribution then is.
func TestC01Regress(t *testing.T) {
	for _, storage := range []string{"zstd", "uncompressed"} {
		s, err := stack.New(stack.Opts{Storage: storage})
		if err != nil {
			t.Fatal(err)
		}
		data := []byte("hello world")
		h := gen.SHA(data)
		// F1: right hash, wrong size_bytes.
		resp, err := cl.BatchUpdate(s, []*pb.BatchUpdateBlobsRequest_Request{{Digest: &pb.Digest{Hash: h, SizeBytes: 100}, Data: data}})
		if err != nil {
			t.Fatal(err)
		}
		E.Case("regress|F1|"+storage, true, "regress=F1")
		if resp.Responses[0].Status.GetCode() == 0 {
			t.Fatalf("F1 returned: BatchUpdateBlobs acknowledged %s/100 for 11 bytes of data", h)
		}
		if p, _ := cl.Present(s, h, 100); p {
			t.Fatalf("F1: %s/100 present", h)
		}
		// F19: unsupported compressor answered with OK.
		d2 := []byte("other payload")
		resp, err = cl.BatchUpdate(s, []*pb.BatchUpdateBlobsRequest_Request{{Digest: &pb.Digest{Hash: gen.SHA(d2), SizeBytes: int64(len(d2))}, Data: d2, Compressor: pb.Compressor_DEFLATE}})
		E.Case("regress|F19|"+storage, true, "regress=F19")
		if err == nil && resp.Responses[0].Status.GetCode() == 0 {
			t.Fatalf("F19 returned: BatchUpdateBlobs answered OK for a DEFLATE blob")
		}
		s.Close()
	}
}
