package c01

import (
	"bufio"
	"bytes"
	"context"
	"encoding/base64"
	"encoding/binary"
	"encoding/hex"
	"fmt"
	"io"
	"net"
	"net/http"
	"net/http/httptest"
	"net/url"
	"strconv"
	"strings"
	"sync"
	"testing"
	"time"

	"github.com/buchgr/bazel-remote/v2/cache"
	asset "github.com/buchgr/bazel-remote/v2/genproto/build/bazel/remote/asset/v1"
	pb "github.com/buchgr/bazel-remote/v2/genproto/build/bazel/remote/execution/v2"
	"google.golang.org/grpc/codes"
	"pgregory.net/rapid"

	"verif/harness/internal/cl"
	"verif/harness/internal/ev"
	"verif/harness/internal/gen"
	"verif/harness/internal/rt"
	"verif/harness/internal/stack"
)

func TestMain(m *testing.M) {
	startUpstream()
	rt.Main(m, "C01")
}

var E = ev.Get("C01")

// ------------------------------------------------------------ upstream for FetchBlob

type upstreamObj struct {
	data []byte
	mode string // "cl" | "chunked" | "short"
}

var (
	upMu   sync.Mutex
	upObjs = map[string]upstreamObj{}
	upSrv  *httptest.Server
	upSeq  int
)

func startUpstream() {
	upSrv = httptest.NewServer(http.HandlerFunc(func(w http.ResponseWriter, r *http.Request) {
		upMu.Lock()
		o, ok := upObjs[r.URL.Path]
		upMu.Unlock()
		if !ok {
			http.NotFound(w, r)
			return
		}
		switch o.mode {
		case "cl":
			w.Header().Set("Content-Length", strconv.Itoa(len(o.data)))
			w.Write(o.data)
		case "chunked":
			fl, _ := w.(http.Flusher)
			half := len(o.data) / 2
			w.Write(o.data[:half])
			if fl != nil {
				fl.Flush()
			}
			w.Write(o.data[half:])
		case "short":
			// announce the full length, deliver a prefix, then drop the connection
			hj, _ := w.(http.Hijacker)
			conn, buf, err := hj.Hijack()
			if err != nil {
				return
			}
			fmt.Fprintf(buf, "HTTP/1.1 200 OK\r\nContent-Length: %d\r\nContent-Type: application/octet-stream\r\n\r\n", len(o.data))
			buf.Write(o.data[:len(o.data)/2])
			buf.Flush()
			conn.Close()
		}
	}))
}

func upstreamPut(o upstreamObj) string {
	upMu.Lock()
	defer upMu.Unlock()
	upSeq++
	p := fmt.Sprintf("/obj/%d", upSeq)
	upObjs[p] = o
	if len(upObjs) > 64 {
		for k := range upObjs {
			if k != p {
				delete(upObjs, k)
				break
			}
		}
	}
	return upSrv.URL + p
}

// ------------------------------------------------------------ corruptions

type decl struct {
	Hash string
	Size int64
}

// logical-level corruption: returns the bytes that will be sent as the
// logical payload and the declared digest.
var logicalCorr = []string{"none", "none", "none", "flip", "trunc", "extend1", "extendBig", "size+1", "size-1", "size0", "sizeOther", "hashNibble", "hashOther", "hashShort"}

func applyLogical(t *rapid.T, kind string, b gen.Blob) (send []byte, d decl, applied string) {
	d = decl{b.Hash, b.Size}
	send = b.Data
	n := len(b.Data)
	switch kind {
	case "flip":
		if n == 0 {
			return send, d, "none"
		}
		pos := rapid.IntRange(0, n-1).Draw(t, "flipPos")
		if rapid.Bool().Draw(t, "flipEdge") {
			pos = []int{0, n - 1, n / 2}[rapid.IntRange(0, 2).Draw(t, "flipEdgePos")]
		}
		send = append([]byte{}, b.Data...)
		send[pos] ^= byte(1 << rapid.IntRange(0, 7).Draw(t, "flipBit"))
	case "trunc":
		if n == 0 {
			return send, d, "none"
		}
		k := rapid.IntRange(0, n-1).Draw(t, "truncTo")
		if rapid.Bool().Draw(t, "truncBy1") {
			k = n - 1
		}
		send = b.Data[:k]
	case "extend1":
		send = append(append([]byte{}, b.Data...), 0x5a)
	case "extendBig":
		extra := gen.Expand(uint64(n)+7, gen.MiB+rapid.IntRange(0, 10).Draw(t, "extra"), "rand")
		send = append(append([]byte{}, b.Data...), extra...)
	case "size+1":
		d.Size = b.Size + 1
	case "size-1":
		if n == 0 {
			return send, d, "none"
		}
		d.Size = b.Size - 1
	case "size0":
		if n == 0 {
			return send, d, "none"
		}
		d.Size = 0
	case "sizeOther":
		d.Size = int64(rapid.IntRange(1, 5*gen.MiB).Draw(t, "otherSize"))
		if d.Size == b.Size {
			d.Size++
		}
	case "hashNibble":
		pos := rapid.IntRange(0, 63).Draw(t, "nibblePos")
		hb := []byte(b.Hash)
		if hb[pos] == '0' {
			hb[pos] = '1'
		} else {
			hb[pos] = '0'
		}
		d.Hash = string(hb)
	case "hashOther":
		d.Hash = gen.SHA(append([]byte("other"), b.Data...))
	case "hashShort":
		d.Hash = b.Hash[:63]
	default:
		kind = "none"
	}
	return send, d, kind
}

// zstd-level corruption of a well-formed stream of the (uncorrupted) payload.
var zstdCorr = []string{"garbage", "badMagic", "truncFrame", "truncFrame1", "badChecksum", "flipByte", "trailGarbage", "secondFrame", "emptyFrameTrailer", "skippableTrailer", "skippableHeader"}

func skippable(payload []byte) []byte {
	out := make([]byte, 8+len(payload))
	binary.LittleEndian.PutUint32(out[0:], 0x184D2A50)
	binary.LittleEndian.PutUint32(out[4:], uint32(len(payload)))
	copy(out[8:], payload)
	return out
}

func compress(t *rapid.T, data []byte) (z []byte, crc bool, enc string) {
	if rapid.Bool().Draw(t, "encCgo") {
		return gen.ZstdC(data, rapid.SampledFrom([]int{1, 3}).Draw(t, "zlevel")), false, "libzstd"
	}
	crc = rapid.Bool().Draw(t, "crc")
	return gen.ZstdGo(data, 1, crc), crc, "klauspost"
}

func applyZstd(t *rapid.T, kind string, data []byte) (z []byte, trailerOnly bool) {
	switch kind {
	case "garbage":
		return gen.Expand(uint64(len(data))+99, rapid.IntRange(1, 200).Draw(t, "garbageLen"), "rand"), false
	case "badMagic":
		z, _, _ = compress(t, data)
		z = append([]byte{}, z...)
		z[0] ^= 0xff
		return z, false
	case "truncFrame":
		z, _, _ = compress(t, data)
		return z[:rapid.IntRange(0, len(z)-1).Draw(t, "ztrunc")], false
	case "truncFrame1":
		z, _, _ = compress(t, data)
		return z[:len(z)-1], false
	case "badChecksum":
		z = append([]byte{}, gen.ZstdGo(data, 1, true)...)
		z[len(z)-1] ^= 0x01
		return z, false
	case "flipByte":
		z, _, _ = compress(t, data)
		z = append([]byte{}, z...)
		z[rapid.IntRange(0, len(z)-1).Draw(t, "zflip")] ^= byte(1 << rapid.IntRange(0, 7).Draw(t, "zflipBit"))
		return z, false
	case "trailGarbage":
		z, _, _ = compress(t, data)
		return append(append([]byte{}, z...), gen.Expand(5, rapid.IntRange(1, 64).Draw(t, "trailLen"), "rand")...), false
	case "secondFrame":
		z, _, _ = compress(t, data)
		z2, _, _ := compress(t, []byte("second frame payload"))
		return append(append([]byte{}, z...), z2...), false
	case "emptyFrameTrailer":
		z, _, _ = compress(t, data)
		z2, _, _ := compress(t, []byte{})
		return append(append([]byte{}, z...), z2...), true
	case "skippableTrailer":
		z, _, _ = compress(t, data)
		return append(append([]byte{}, z...), skippable([]byte("meta"))...), true
	case "skippableHeader":
		z, _, _ = compress(t, data)
		return append(skippable([]byte("hdr")), z...), true
	}
	z, _, _ = compress(t, data)
	return z, false
}

// verdict for a payload whose logical bytes are L (nil, false if none).
func verdictFor(L []byte, ok bool, d decl) string {
	if !ok {
		return "reject"
	}
	if int64(len(L)) == d.Size && gen.SHA(L) == d.Hash {
		return "accept"
	}
	return "reject"
}

func wellFormed(d decl) bool {
	if len(d.Hash) != 64 || d.Size < 0 {
		return false
	}
	for _, c := range d.Hash {
		if !(c >= '0' && c <= '9' || c >= 'a' && c <= 'f') {
			return false
		}
	}
	return true
}

// waitIdle waits until no reservation is open (the handler of an aborted
// request has finished). Ceiling only bounds the wait; it is not a verdict.
func waitIdle(s *stack.Stack) {
	for i := 0; i < 5000; i++ {
		_, res, _, _ := s.Cache.Stats()
		if res == 0 {
			return
		}
		time.Sleep(time.Millisecond)
	}
}

type outcome struct {
	ack  bool
	info string
	d    decl // digest the server acknowledged (for paths where the server names it)
}

// rawHTTPPut writes a PUT whose body is shorter than its Content-Length, then closes.
func rawHTTPShortPut(s *stack.Stack, path string, hdr map[string]string, declared int, body []byte) outcome {
	u, _ := url.Parse(s.URL)
	c, err := net.DialTimeout("tcp", u.Host, 5*time.Second)
	if err != nil {
		return outcome{info: "dial: " + err.Error()}
	}
	defer c.Close()
	var sb strings.Builder
	fmt.Fprintf(&sb, "PUT %s HTTP/1.1\r\nHost: %s\r\nContent-Length: %d\r\n", path, u.Host, declared)
	for k, v := range hdr {
		fmt.Fprintf(&sb, "%s: %s\r\n", k, v)
	}
	sb.WriteString("\r\n")
	c.Write([]byte(sb.String()))
	c.Write(body)
	if tc, ok := c.(*net.TCPConn); ok {
		tc.CloseWrite()
	}
	c.SetReadDeadline(time.Now().Add(10 * time.Second))
	line, _ := bufio.NewReader(c).ReadString('\n')
	return outcome{ack: strings.Contains(line, " 200 "), info: "status line: " + strings.TrimSpace(line)}
}

var paths = []string{"http", "http-zstd", "batch", "batch-zstd", "bs", "bs-zstd", "splice", "splice-nodigest", "ac-inline", "fetch"}

func TestC01Upload(t *testing.T) {
	E.SetRule("rapid draws storage{zstd,uncompressed} × codec{go,cgo} × write path (10) × blob(size class × content) × corruption (logical: flip/trunc/extend/size±1/size0/other size/hash nibble/other hash/short hash; zstd: garbage/bad magic/truncated/bad checksum/byte flip/trailing garbage/second frame/benign trailers; framing: short body, aborted stream, missing finish_write, lying X-Digest-SizeBytes, missing size header; splice: swapped/missing/mis-sized chunks; fetch: SRI mismatch, short body, chunked). Oracle: harness-side SHA-256/length of the logical bytes it sent (compressed payloads decoded by two independent decoders): ack ⇒ good ∧ present ∧ readable; pristine ⇒ ack; ¬good ⇒ error ∧ claimed digest absent. non-trivial: MUST-REJECT cases and MUST-ACCEPT cases > 4096 bytes; distinct by (path, storage, codec, corruption, size class, first 8 hex of sha256)")
	rt.Check(t, rt.N(900, 5000), func(t *rapid.T) {
		storage := rapid.SampledFrom([]string{"zstd", "uncompressed"}).Draw(t, "storage")
		codec := rapid.SampledFrom([]string{"go", "cgo"}).Draw(t, "codec")
		path := rapid.SampledFrom(paths).Draw(t, "path")
		maxSz := 3*gen.MiB + 5000
		if path == "ac-inline" {
			maxSz = 2 * gen.MiB
		}
		b := gen.DrawBlob(t, "blob", 0, maxSz)
		s, err := stack.New(stack.Opts{Storage: storage, Zstd: codec})
		if err != nil {
			t.Fatal(err)
		}
		defer s.Close()

		// Some cases start from a cache that already holds the pristine blob, so
		// that an upload naming the same hash with another size (or other bytes
		// under a neighbouring digest) meets an existing entry.
		prestored := false
		legit := map[string]bool{} // hashes the harness itself stored legitimately
		prestore := func(d decl) {
			if (d.Hash == b.Hash && d.Size != b.Size || d.Hash != b.Hash) && b.Size > 0 && rapid.Bool().Draw(t, "prestore") {
				if err := s.Cache.Put(context.Background(), cache.CAS, b.Hash, b.Size, bytes.NewReader(b.Data)); err != nil {
					t.Fatal(err)
				}
				prestored = true
				legit[b.Hash] = true
			}
		}
		var out outcome
		var d decl
		var L []byte
		Lok := true
		verdict := ""
		corr := "none"
		isZ := strings.HasSuffix(path, "-zstd")

		// choose corruption
		if isZ && rapid.IntRange(0, 2).Draw(t, "zcorr?") == 0 {
			corr = "z:" + rapid.SampledFrom(zstdCorr).Draw(t, "zcorr")
		} else if path != "splice" && path != "splice-nodigest" && path != "fetch" {
			corr = rapid.SampledFrom(logicalCorr).Draw(t, "corr")
		}

		switch path {
		case "http", "http-zstd", "batch", "batch-zstd", "bs", "bs-zstd":
			var T []byte
			trailer := false
			if strings.HasPrefix(corr, "z:") {
				d = decl{b.Hash, b.Size}
				T, trailer = applyZstd(t, corr[2:], b.Data)
				L, Lok = gen.DecodeStrict(T)
				if !Lok {
					// one decoder may accept what the other rejects
					a, ea, bb, eb := gen.DecodeEither(T)
					if (ea == nil) != (eb == nil) || (ea == nil && !bytes.Equal(a, bb)) {
						verdict = "dontcare"
					}
				}
			} else {
				var send []byte
				send, d, corr = applyLogical(t, corr, b)
				L = send
				if isZ {
					T, _, _ = compress(t, send)
				} else {
					T = send
				}
			}
			if verdict == "" {
				verdict = verdictFor(L, Lok, d)
				if trailer && verdict == "accept" {
					verdict = "dontcare"
				}
			}
			prestore(d)
			switch path {
			case "http", "http-zstd":
				hdr := map[string]string{}
				if isZ {
					hdr["Content-Encoding"] = "zstd"
				}
				framing := rapid.SampledFrom([]string{"plain", "plain", "plain", "xdigest", "shortbody", "nosizehdr"}).Draw(t, "framing")
				if !wellFormed(d) {
					framing = "plain" // URL carries the hash; keep one defect per case
				}
				switch framing {
				case "xdigest":
					hdr["X-Digest-SizeBytes"] = strconv.FormatInt(d.Size, 10)
				case "nosizehdr":
					if isZ {
						// without X-Digest-SizeBytes the declared size is the Content-Length = compressed length
						d.Size = int64(len(T))
						verdict = verdictFor(L, Lok, d)
						if verdict == "accept" {
							verdict = "dontcare"
						}
						corr += "+nosizehdr"
					} else {
						framing = "plain"
					}
				}
				if framing != "nosizehdr" && (isZ || d.Size != int64(len(T))) {
					hdr["X-Digest-SizeBytes"] = strconv.FormatInt(d.Size, 10)
				}
				if framing == "shortbody" && len(T) > 0 {
					cut := rapid.IntRange(0, len(T)-1).Draw(t, "bodyCut")
					out = rawHTTPShortPut(s, "/cas/"+d.Hash, hdr, len(T), T[:cut])
					corr += "+shortbody"
					// What counts is what was delivered. A cut can fall exactly at the
					// end of a complete, pristine payload whose tail (trailing garbage,
					// a second frame) never arrived: the statement does not say whether
					// the missing Content-Length bytes alone make that an error.
					L, Lok = T[:cut], int64(cut) == d.Size
					if isZ {
						L, Lok = gen.DecodeStrict(T[:cut])
					}
					if verdict = "reject"; verdictFor(L, Lok, d) == "accept" {
						verdict = "dontcare"
						corr += "(complete-prefix)"
					}
					waitIdle(s)
				} else {
					resp := cl.HTTPPut(s, "/cas/"+d.Hash, hdr, T)
					out = outcome{ack: resp.Err == nil && resp.Code == 200, info: fmt.Sprintf("HTTP %d %v %.80s", resp.Code, resp.Err, resp.Body)}
				}
			case "batch", "batch-zstd":
				req := &pb.BatchUpdateBlobsRequest_Request{Digest: &pb.Digest{Hash: d.Hash, SizeBytes: d.Size}, Data: T}
				if isZ {
					req.Compressor = pb.Compressor_ZSTD
				}
				if !isZ && corr == "none" && rapid.IntRange(0, 9).Draw(t, "badCompressor") == 0 {
					req.Compressor = rapid.SampledFrom([]pb.Compressor_Value{pb.Compressor_DEFLATE, pb.Compressor_BROTLI, pb.Compressor_Value(77)}).Draw(t, "compressor")
					verdict = "reject"
					corr = "unsupportedCompressor"
				}
				reqs := []*pb.BatchUpdateBlobsRequest_Request{req}
				// a pristine neighbour in the same batch must be unaffected
				var nb gen.Blob
				hasNb := wellFormed(d) && d.Size != 0 && rapid.Bool().Draw(t, "neighbour")
				if hasNb {
					nb = gen.DrawSmallBlob(t, "nb", 1, 5000)
				}
				if hasNb && nb.Hash == d.Hash {
					hasNb = false // the same blob twice in one batch: nothing to tell apart
				}
				if hasNb {
					nreq := &pb.BatchUpdateBlobsRequest_Request{Digest: &pb.Digest{Hash: nb.Hash, SizeBytes: nb.Size}, Data: nb.Data}
					if rapid.Bool().Draw(t, "nbFirst") {
						reqs = []*pb.BatchUpdateBlobsRequest_Request{nreq, req}
					} else {
						reqs = append(reqs, nreq)
					}
				}
				resp, err := cl.BatchUpdate(s, reqs)
				if err != nil {
					out = outcome{ack: false, info: "call error: " + err.Error()}
					if hasNb {
						t.Fatalf("BatchUpdateBlobs failed as a whole for well-formed digests: %v", err)
					}
				} else {
					found := false
					for _, r := range resp.Responses {
						if r.Digest.GetHash() == d.Hash && r.Digest.GetSizeBytes() == d.Size && !(hasNb && r.Digest.GetHash() == nb.Hash) {
							found = true
							out = outcome{ack: r.Status.GetCode() == 0, info: fmt.Sprintf("per-blob status %d", r.Status.GetCode())}
						}
						if hasNb && r.Digest.GetHash() == nb.Hash && r.Digest.GetHash() != d.Hash {
							if r.Status.GetCode() != 0 {
								t.Fatalf("pristine neighbour blob in the same batch got status %d", r.Status.GetCode())
							}
							if p, _ := cl.Present(s, nb.Hash, nb.Size); !p {
								t.Fatalf("acknowledged neighbour blob not present")
							}
						}
					}
					if !found {
						t.Fatalf("BatchUpdateBlobs: no response entry for %v (responses %v)", d, resp.Responses)
					}
				}
			case "bs", "bs-zstd":
				inst := rapid.SampledFrom([]string{"", "foo", "a/b"}).Draw(t, "instance")
				name := cl.WriteName(inst, "uuid-1", d.Hash, d.Size, isZ, "")
				ncuts := rapid.IntRange(0, 4).Draw(t, "ncuts")
				var cuts []int
				for i := 0; i < ncuts && len(T) > 0; i++ {
					cuts = append(cuts, rapid.IntRange(0, len(T)).Draw(t, "cut"))
				}
				sortInts(cuts)
				framing := rapid.SampledFrom([]string{"finish", "finish", "finish", "nofinish", "abort"}).Draw(t, "framing")
				msgs := cl.Chunked(name, T, cuts, framing != "nofinish" && framing != "abort")
				if framing == "abort" {
					// the client goes away after the first messages
					keep := rapid.IntRange(1, len(msgs)).Draw(t, "abortAfter")
					msgs = msgs[:keep]
					for i := range msgs {
						msgs[i].Finish = false
					}
					r := cl.BSWrite(s, msgs, true)
					out = outcome{ack: r.Code == codes.OK, info: fmt.Sprintf("aborted: %v", r.Err)}
					verdict = "reject"
					corr += "+abort"
					Lok = false // the client went away: no complete upload was delivered
					waitIdle(s)
				} else {
					r := cl.BSWrite(s, msgs, false)
					out = outcome{ack: r.Code == codes.OK, info: fmt.Sprintf("code=%v committed=%d err=%v", r.Code, r.Committed, r.Err)}
					if framing == "nofinish" {
						corr += "+nofinish"
						if verdict == "accept" {
							verdict = "dontcare" // half-close without finish_write after all bytes: statement silent
						}
					}
				}
			}

		case "splice", "splice-nodigest":
			if b.Size == 0 {
				b = gen.MakeBlob(1, 10, "text", "2-100")
			}
			n := len(b.Data)
			nch := rapid.IntRange(1, 4).Draw(t, "nchunks")
			var cuts []int
			for i := 1; i < nch && n > 1; i++ {
				cuts = append(cuts, rapid.IntRange(1, n-1).Draw(t, "chunkCut"))
			}
			sortInts(cuts)
			cuts = append(append([]int{0}, cuts...), n)
			var chunks [][]byte
			for i := 1; i < len(cuts); i++ {
				if cuts[i] > cuts[i-1] {
					chunks = append(chunks, b.Data[cuts[i-1]:cuts[i]])
				}
			}
			var cds []*pb.Digest
			for _, c := range chunks {
				h := gen.SHA(c)
				if err := s.Cache.Put(context.Background(), cache.CAS, h, int64(len(c)), bytes.NewReader(c)); err != nil {
					t.Fatal(err)
				}
				legit[h] = true
				cds = append(cds, &pb.Digest{Hash: h, SizeBytes: int64(len(c))})
			}
			corr = rapid.SampledFrom([]string{"none", "none", "blobHashNibble", "blobSize+1", "blobSize-1", "swapChunks", "missingChunk", "chunkSizeLie", "dropChunk"}).Draw(t, "spliceCorr")
			d = decl{b.Hash, b.Size}
			L = b.Data
			withDigest := path == "splice"
			switch corr {
			case "blobHashNibble":
				_, d, _ = applyLogical(t, "hashNibble", b)
			case "blobSize+1":
				d.Size++
			case "blobSize-1":
				d.Size--
			case "swapChunks":
				if len(cds) >= 2 {
					i := rapid.IntRange(0, len(cds)-2).Draw(t, "swapAt")
					cds[i], cds[i+1] = cds[i+1], cds[i]
					chunks[i], chunks[i+1] = chunks[i+1], chunks[i]
					L = bytes.Join(chunks, nil)
				} else {
					corr = "none"
				}
			case "dropChunk":
				if len(cds) >= 2 {
					i := rapid.IntRange(0, len(cds)-1).Draw(t, "dropAt")
					cds = append(cds[:i:i], cds[i+1:]...)
					chunks = append(chunks[:i:i], chunks[i+1:]...)
					L = bytes.Join(chunks, nil)
				} else {
					corr = "none"
				}
			case "missingChunk":
				other := []byte("never uploaded chunk")
				i := rapid.IntRange(0, len(cds)-1).Draw(t, "missAt")
				cds[i] = &pb.Digest{Hash: gen.SHA(other), SizeBytes: int64(len(chunks[i]))}
				Lok = false
			case "chunkSizeLie":
				i := rapid.IntRange(0, len(cds)-1).Draw(t, "lieAt")
				cds[i] = &pb.Digest{Hash: cds[i].Hash, SizeBytes: cds[i].SizeBytes + 1}
				d.Size++ // keep the sum consistent so that only the chunk lie is wrong
				Lok = false
			}
			if !withDigest && (corr == "blobHashNibble" || corr == "blobSize+1" || corr == "blobSize-1") {
				corr = "none"
				d = decl{b.Hash, b.Size}
			}
			// With a single chunk the spliced blob *is* the chunk and is present
			// before the call: an upload of an already-present digest may be
			// acknowledged without looking at the payload (C16's early return).
			if wellFormed(d) {
				if pre, _ := cl.Present(s, d.Hash, d.Size); pre {
					E.Label("dontcare:already-present")
					return
				}
			}
			req := &pb.SpliceBlobRequest{ChunkDigests: cds}
			if rapid.Bool().Draw(t, "digestFn") {
				req.DigestFunction = pb.DigestFunction_SHA256
			}
			if withDigest {
				req.BlobDigest = &pb.Digest{Hash: d.Hash, SizeBytes: d.Size}
				verdict = verdictFor(L, Lok, d)
			} else {
				// the server names the digest; it must be the digest of the concatenation
				if Lok {
					d = decl{gen.SHA(L), int64(len(L))}
					verdict = "accept"
				} else {
					verdict = "reject"
				}
			}
			ctx, cancel := cl.Ctx()
			resp, err := s.CAS.SpliceBlob(ctx, req)
			cancel()
			out = outcome{ack: err == nil, info: fmt.Sprintf("%v", err)}
			if err == nil {
				got := decl{resp.GetBlobDigest().GetHash(), resp.GetBlobDigest().GetSizeBytes()}
				if Lok && (got.Hash != gen.SHA(L) || got.Size != int64(len(L))) {
					t.Fatalf("SpliceBlob acknowledged digest %v but the chunks concatenate to %s/%d (corr=%s)", got, gen.SHA(L), len(L), corr)
				}
				if !withDigest {
					d = got
				}
			}

		case "ac-inline":
			if b.Size == 0 {
				b = gen.MakeBlob(2, 7, "text", "2-100")
			}
			field := rapid.SampledFrom([]string{"file", "stdout", "stderr"}).Draw(t, "field")
			corr = rapid.SampledFrom([]string{"none", "none", "nodigest", "hashNibble", "hashOther", "size+1", "size-1"}).Draw(t, "inlineCorr")
			d = decl{b.Hash, b.Size}
			if field == "file" && corr == "nodigest" {
				corr = "none" // an output file must carry a digest
			}
			switch corr {
			case "hashNibble", "hashOther", "size+1", "size-1":
				_, d, _ = applyLogical(t, corr, b)
			}
			var dg *pb.Digest
			if corr != "nodigest" {
				dg = &pb.Digest{Hash: d.Hash, SizeBytes: d.Size}
			}
			L = b.Data
			verdict = verdictFor(L, true, d)
			ar := &pb.ActionResult{}
			switch field {
			case "file":
				ar.OutputFiles = []*pb.OutputFile{{Path: "o/f", Digest: dg, Contents: b.Data}}
			case "stdout":
				ar.StdoutRaw, ar.StdoutDigest = b.Data, dg
			case "stderr":
				ar.StderrRaw, ar.StderrDigest = b.Data, dg
			}
			corr = field + ":" + corr
			ctx, cancel := cl.Ctx()
			_, err := s.AC.UpdateActionResult(ctx, &pb.UpdateActionResultRequest{ActionDigest: &pb.Digest{Hash: gen.SHA([]byte("k")), SizeBytes: 3}, ActionResult: ar})
			cancel()
			out = outcome{ack: err == nil, info: fmt.Sprintf("%v", err)}

		case "fetch":
			corr = rapid.SampledFrom([]string{"none", "none", "nosri", "sriMismatch", "shortBody", "shortBodyNoSri"}).Draw(t, "fetchCorr")
			mode := rapid.SampledFrom([]string{"cl", "chunked"}).Draw(t, "upMode")
			served := b.Data
			d = decl{b.Hash, b.Size}
			L = b.Data
			sri := true
			switch corr {
			case "nosri":
				sri = false
			case "sriMismatch":
				if b.Size == 0 {
					corr = "none"
					break
				}
				served = append([]byte{}, b.Data...)
				served[rapid.IntRange(0, len(served)-1).Draw(t, "flipPos")] ^= 0x10
				L = served
			case "shortBody", "shortBodyNoSri":
				if b.Size < 2 {
					corr = "none"
					break
				}
				mode = "short"
				sri = corr == "shortBody"
				Lok = false
			}
			uri := upstreamPut(upstreamObj{data: served, mode: mode})
			req := &asset.FetchBlobRequest{Uris: []string{uri}}
			if sri {
				raw, _ := hex.DecodeString(d.Hash)
				req.Qualifiers = []*asset.Qualifier{{Name: "checksum.sri", Value: "sha256-" + base64.StdEncoding.EncodeToString(raw)}}
				verdict = verdictFor(L, Lok, d)
			} else if Lok {
				d = decl{gen.SHA(L), int64(len(L))}
				verdict = "accept"
			} else {
				verdict = "reject"
			}
			corr += "/" + mode
			ctx, cancel := cl.Ctx()
			resp, err := s.Asset.FetchBlob(ctx, req)
			cancel()
			if err != nil {
				out = outcome{ack: false, info: err.Error()}
			} else {
				out = outcome{ack: resp.GetStatus().GetCode() == 0, info: fmt.Sprintf("status %d", resp.GetStatus().GetCode())}
				if out.ack {
					got := decl{resp.GetBlobDigest().GetHash(), resp.GetBlobDigest().GetSizeBytes()}
					if sri && got.Hash != d.Hash {
						t.Fatalf("FetchBlob acknowledged %v for SRI %s", got, d.Hash)
					}
					if !Lok || got.Hash != gen.SHA(L) || got.Size != int64(len(L)) {
						t.Fatalf("FetchBlob acknowledged digest %v; upstream delivered %d complete bytes (complete=%v, sha=%s) corr=%s", got, len(L), Lok, gen.SHA(L), corr)
					}
					d = got
				}
			}
		}

		cfgs := storage + "/" + codec
		ctxs := fmt.Sprintf("path=%s cfg=%s corr=%s size=%d content=%s declared=%s/%d verdict=%s server: %s", path, cfgs, corr, b.Size, b.Content, d.Hash, d.Size, verdict, out.info)
		nontrivial := verdict == "reject" || (verdict == "accept" && b.Size > 4096)
		if prestored {
			corr += "+prestored"
		}
		E.Case(fmt.Sprintf("%s|%s|%s|%s|%.8s", path, cfgs, corr, b.SizeCls, b.Hash), nontrivial,
			"path="+path, "cfg="+cfgs, "corr="+path+":"+corr, "verdict="+verdict, "size="+b.SizeCls, fmt.Sprintf("ack=%v/%s", out.ack, verdict))
		E.Sample(path+"/"+verdict, map[string]any{"path": path, "storage": storage, "codec": codec, "corruption": corr, "size": b.Size, "content": b.Content, "declared": fmt.Sprintf("%s/%d", d.Hash, d.Size), "verdict": verdict, "server": out.info})

		if s.Panics() > 0 {
			t.Fatalf("%s: handler panic: %v", ctxs, s.PanicLog)
		}
		good := Lok && int64(len(L)) == d.Size && gen.SHA(L) == d.Hash
		// The empty blob is present in every cache by definition, and an upload
		// of an already-present digest may be acknowledged early without the
		// payload being looked at (that is C16's early-return rule). Uploads
		// that declare the empty digest are therefore outside the MUST classes.
		if d.Size == 0 && d.Hash == gen.SHA(nil) && !good {
			E.Label("dontcare:declared-empty-digest")
			return
		}
		// (1) safety
		if out.ack {
			if !good {
				t.Fatalf("acknowledged an upload whose logical bytes do not match the declared digest: %s", ctxs)
			}
			checkPresentAndReadable(t, s, d, L, ctxs)
		}
		switch verdict {
		case "accept":
			if !out.ack {
				t.Fatalf("well-formed upload rejected: %s", ctxs)
			}
		case "reject":
			if out.ack {
				t.Fatalf("must-reject upload acknowledged: %s", ctxs)
			}
			if wellFormed(d) {
				if p, err := cl.Present(s, d.Hash, d.Size); err == nil && p && !(d.Size == 0 && d.Hash == gen.SHA(nil)) {
					t.Fatalf("rejected upload made the claimed digest present: %s", ctxs)
				}
				if (!Lok || gen.SHA(L) != d.Hash) && !legit[d.Hash] {
					// nothing with that hash was ever sent completely: no size can be right
					if r := cl.HTTPHead(s, "/cas/"+d.Hash); r.Code == 200 && d.Hash != gen.SHA(nil) {
						t.Fatalf("rejected upload left an entry under the claimed hash (HEAD 200, Content-Length %s): %s", r.Header.Get("Content-Length"), ctxs)
					}
				}
			}
		}
	})
}

func checkPresentAndReadable(t *rapid.T, s *stack.Stack, d decl, L []byte, ctxs string) {
	p, err := cl.Present(s, d.Hash, d.Size)
	if err != nil || !p {
		t.Fatalf("acknowledged blob reported missing by FindMissingBlobs (%v): %s", err, ctxs)
	}
	h := cl.HTTPHead(s, "/cas/"+d.Hash)
	if h.Code != 200 || h.Header.Get("Content-Length") != strconv.FormatInt(d.Size, 10) {
		t.Fatalf("acknowledged blob: HEAD %d Content-Length %q: %s", h.Code, h.Header.Get("Content-Length"), ctxs)
	}
	which := rapid.IntRange(0, 2).Draw(t, "readback")
	if len(L) <= 64*gen.KiB || which == 0 {
		g := cl.HTTPGet(s, "/cas/"+d.Hash, nil)
		if g.Code != 200 || !bytes.Equal(g.Body, L) {
			t.Fatalf("acknowledged blob: GET %d, %d bytes (want %d): %s", g.Code, len(g.Body), len(L), ctxs)
		}
	}
	if len(L) <= 64*gen.KiB || which == 1 {
		got, code, err := cl.BSRead(s, cl.ReadName("", d.Hash, d.Size, false), 0, 0)
		if code != codes.OK || !bytes.Equal(got, L) {
			t.Fatalf("acknowledged blob: ByteStream.Read %v %v, %d bytes (want %d): %s", code, err, len(got), len(L), ctxs)
		}
	}
	if len(L) <= 64*gen.KiB || which == 2 {
		got, code, err := cl.BSRead(s, cl.ReadName("", d.Hash, d.Size, true), 0, 0)
		if code != codes.OK {
			t.Fatalf("acknowledged blob: compressed ByteStream.Read %v %v: %s", code, err, ctxs)
		}
		dec, derr := gen.DecodeBoth(got)
		if derr != nil || !bytes.Equal(dec, L) {
			t.Fatalf("acknowledged blob: compressed read decodes to %d bytes (%v), want %d: %s", len(dec), derr, len(L), ctxs)
		}
	}
}

func sortInts(a []int) {
	for i := 1; i < len(a); i++ {
		for j := i; j > 0 && a[j] < a[j-1]; j-- {
			a[j], a[j-1] = a[j-1], a[j]
		}
	}
}

var _ = io.EOF
