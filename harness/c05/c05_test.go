package c05

import (
	"fmt"
	"strings"
	"testing"

	"pgregory.net/rapid"

	"verif/harness/internal/ev"
	"verif/harness/internal/machine"
	"verif/harness/internal/rt"
)

func TestMain(m *testing.M) { rt.Main(m, "C05") }

var E = ev.Get("C05")

func drawMax(t *rapid.T) int64 {
	switch rapid.IntRange(0, 3).Draw(t, "maxClass") {
	case 0:
		return int64(rapid.IntRange(4, 16).Draw(t, "maxBlocks")) * 4096
	case 1:
		return int64(rapid.IntRange(16*1024, 256*1024).Draw(t, "maxBytes"))
	case 2:
		return int64(rapid.IntRange(16, 256).Draw(t, "maxBlocks")) * 4096
	}
	return int64(rapid.IntRange(256*1024, 1024*1024).Draw(t, "maxBytes"))
}

// TestC05LRU: sequential histories of puts and recency-refreshing lookups on
// a cache under pressure; after every operation the order / pressure-only /
// minimality / presence / oversize invariants must hold.
func TestC05LRU(t *testing.T) {
	E.SetRule("rapid state machine (t.Repeat) over one small cache (max_size 16 KiB..1 MiB, also non-multiples of 4 KiB; zstd and uncompressed): put of CAS/AC/RAW values sized relative to max_size (tiny, 4 KiB±1, M/8, M/3, M/2, near M, M, M+1, 2M; compressible or not), overwrites with other sizes, Get (size known / -1), Contains, FindMissingCasBlobs, validated ActionResult lookup, failing uploads. Oracle after each step, from a harness-side logical clock of uses and REAL file sizes: no victim certainly more recent than a survivor; eviction only if on-disk total + need > max_size; re-adding the most recent victim would overflow; accepted => present; logical > max_size => rejected, nothing evicted. non-trivial: history with >=1 eviction preceded by a recency-refreshing lookup hit; distinct by the sequence of (rule, outcome class)")
	rt.Check(t, rt.N(250, 2000), func(t *rapid.T) {
		cfg := machine.Cfg{MaxSize: drawMax(t), Storage: rapid.SampledFrom([]string{"zstd", "uncompressed"}).Draw(t, "storage"), Codec: "go", Failures: false,
			Proxy: rapid.IntRange(0, 2).Draw(t, "backend") == 0}
		m := machine.New(t, cfg)
		defer m.Close()
		var shape []string
		evictions, lookupsBeforeEviction := 0, false
		sawLookup := false
		t.Repeat(map[string]func(*rapid.T){
			"put": func(t *rapid.T) {
				ob := m.ObserveBefore()
				key, logical, err := m.Put(t)
				n := m.CheckLRU(t, ob, "put", key, logical, err == nil)
				shape = append(shape, fmt.Sprintf("put:%v:%d", err == nil, n))
				if n > 0 {
					evictions++
					if sawLookup {
						lookupsBeforeEviction = true
					}
				}
			},
			"fetch": func(t *rapid.T) {
				// a backend fetch is an incoming item like an upload
				ob := m.ObserveBefore()
				key, logical, hit := m.FetchKV(t)
				n := m.CheckLRU(t, ob, "fetch", key, logical, hit)
				shape = append(shape, fmt.Sprintf("fetch:%v:%d", hit, n))
				if n > 0 {
					evictions++
					if sawLookup {
						lookupsBeforeEviction = true
					}
				}
			},
			"failfetch": func(t *rapid.T) {
				// a backend fetch that fails (before, or part-way through, the
				// stream; size announced or not): it may make room for itself but
				// must leave nothing behind that makes LATER items evict without need
				m.Cfg.Failures, m.FetchFaults = true, []string{"err-before", "nil-reader-no-err", "stream-err", "stream-err", "clean-eof", "clean-eof"}
				defer func() { m.Cfg.Failures, m.FetchFaults = false, nil }() // (FetchKV may skip the step)
				ob := m.ObserveBefore()
				key, logical, hit := m.FetchKV(t)
				n := m.CheckLRU(t, ob, "failput:fetch", key, logical, hit) // ("failput": a miss is the expected outcome)
				shape = append(shape, fmt.Sprintf("failfetch:%v:%d", hit, n))
			},
			"get": func(t *rapid.T) {
				ob := m.ObserveBefore()
				m.Get(t)
				m.CheckLRU(t, ob, "get", "", 0, false)
				shape = append(shape, "get")
				sawLookup = sawLookup || m.Flags["lookup-hit"]
			},
			"contains": func(t *rapid.T) {
				ob := m.ObserveBefore()
				m.Contains(t)
				m.CheckLRU(t, ob, "contains", "", 0, false)
				shape = append(shape, "contains")
				sawLookup = sawLookup || m.Flags["lookup-hit"]
			},
			"findmissing": func(t *rapid.T) {
				ob := m.ObserveBefore()
				m.FindMissing(t)
				m.CheckLRU(t, ob, "findmissing", "", 0, false)
				shape = append(shape, "findmissing")
				sawLookup = sawLookup || m.Flags["lookup-hit"]
			},
			"validated-ac": func(t *rapid.T) {
				ob := m.ObserveBefore()
				m.ValidatedAC(t)
				m.CheckLRU(t, ob, "validated-ac", "", 0, false)
				shape = append(shape, "vac")
				sawLookup = sawLookup || m.Flags["depcheck-hit"]
			},
		})
		nontrivial := evictions > 0 && lookupsBeforeEviction
		labels := []string{"storage=" + cfg.Storage, fmt.Sprintf("backend=%v", cfg.Proxy), fmt.Sprintf("evictions>0=%v", evictions > 0), fmt.Sprintf("nontrivial=%v", nontrivial)}
		for _, f := range []string{"overwrite", "overwrite-size-change", "put-rejected", "lookup-hit", "depcheck-hit"} {
			if m.Flags[f] {
				labels = append(labels, "has="+f)
			}
		}
		E.Case(strings.Join(shape, ","), nontrivial, labels...)
		E.LabelN("steps", int64(len(shape)))
		E.LabelN("evicting-ops", int64(evictions))
		if nontrivial {
			E.Sample(fmt.Sprintf("ev%d", min(evictions, 3)), map[string]any{"max_size": cfg.MaxSize, "storage": cfg.Storage, "history": m.Log})
		}
	})
}
