package c13

import (
	"bytes"
	"context"
	"crypto/ecdsa"
	"crypto/elliptic"
	"crypto/rand"
	"crypto/sha1"
	"crypto/tls"
	"crypto/x509"
	"crypto/x509/pkix"
	"encoding/base64"
	"encoding/json"
	"encoding/pem"
	"fmt"
	"io"
	"math/big"
	"net"
	"net/http"
	"os"
	"os/exec"
	"path/filepath"
	"strings"
	"testing"
	"time"

	asset "github.com/buchgr/bazel-remote/v2/genproto/build/bazel/remote/asset/v1"
	pb "github.com/buchgr/bazel-remote/v2/genproto/build/bazel/remote/execution/v2"
	"golang.org/x/crypto/bcrypt"
	"google.golang.org/genproto/googleapis/bytestream"
	"google.golang.org/grpc"
	"google.golang.org/grpc/codes"
	"google.golang.org/grpc/credentials"
	"google.golang.org/grpc/credentials/insecure"
	"google.golang.org/grpc/health/grpc_health_v1"
	"google.golang.org/grpc/metadata"
	"google.golang.org/grpc/status"
	"pgregory.net/rapid"

	"verif/harness/internal/ev"
	"verif/harness/internal/gen"
	"verif/harness/internal/rt"
	"verif/harness/internal/stack"
)

func TestMain(m *testing.M) { rt.Main(m, "C13") }

var E = ev.Get("C13")

// ---------------------------------------------------------------- certificates

type pki struct {
	dir                                  string
	caPEM, srvCert, srvKey               string
	clientCert, foreignClientCert        tls.Certificate
	caPool                               *x509.CertPool
}

func mkCA(name string) (*x509.Certificate, *ecdsa.PrivateKey, []byte) {
	key, _ := ecdsa.GenerateKey(elliptic.P256(), rand.Reader)
	tmpl := &x509.Certificate{SerialNumber: big.NewInt(time.Now().UnixNano()), Subject: pkix.Name{CommonName: name}, NotBefore: time.Now().Add(-time.Hour), NotAfter: time.Now().Add(24 * time.Hour),
		IsCA: true, KeyUsage: x509.KeyUsageCertSign | x509.KeyUsageDigitalSignature, BasicConstraintsValid: true}
	der, _ := x509.CreateCertificate(rand.Reader, tmpl, tmpl, &key.PublicKey, key)
	c, _ := x509.ParseCertificate(der)
	return c, key, pem.EncodeToMemory(&pem.Block{Type: "CERTIFICATE", Bytes: der})
}

func mkLeaf(ca *x509.Certificate, caKey *ecdsa.PrivateKey, cn string, server bool) (certPEM, keyPEM []byte) {
	key, _ := ecdsa.GenerateKey(elliptic.P256(), rand.Reader)
	tmpl := &x509.Certificate{SerialNumber: big.NewInt(time.Now().UnixNano() + 1), Subject: pkix.Name{CommonName: cn}, NotBefore: time.Now().Add(-time.Hour), NotAfter: time.Now().Add(24 * time.Hour),
		KeyUsage: x509.KeyUsageDigitalSignature}
	if server {
		tmpl.ExtKeyUsage = []x509.ExtKeyUsage{x509.ExtKeyUsageServerAuth}
		tmpl.IPAddresses = []net.IP{net.ParseIP("127.0.0.1")}
		tmpl.DNSNames = []string{"localhost"}
	} else {
		tmpl.ExtKeyUsage = []x509.ExtKeyUsage{x509.ExtKeyUsageClientAuth}
	}
	der, _ := x509.CreateCertificate(rand.Reader, tmpl, ca, &key.PublicKey, caKey)
	kb, _ := x509.MarshalECPrivateKey(key)
	return pem.EncodeToMemory(&pem.Block{Type: "CERTIFICATE", Bytes: der}), pem.EncodeToMemory(&pem.Block{Type: "EC PRIVATE KEY", Bytes: kb})
}

func newPKI(dir string) *pki {
	ca, caKey, caPEM := mkCA("verif test CA")
	fca, fcaKey, _ := mkCA("some other CA")
	sc, sk := mkLeaf(ca, caKey, "server", true)
	cc, ck := mkLeaf(ca, caKey, "client", false)
	fc, fk := mkLeaf(fca, fcaKey, "stranger", false)
	p := &pki{dir: dir, caPEM: filepath.Join(dir, "ca.pem"), srvCert: filepath.Join(dir, "server.pem"), srvKey: filepath.Join(dir, "server.key")}
	os.WriteFile(p.caPEM, caPEM, 0o600)
	os.WriteFile(p.srvCert, sc, 0o600)
	os.WriteFile(p.srvKey, sk, 0o600)
	p.clientCert, _ = tls.X509KeyPair(cc, ck)
	p.foreignClientCert, _ = tls.X509KeyPair(fc, fk)
	p.caPool = x509.NewCertPool()
	p.caPool.AppendCertsFromPEM(caPEM)
	return p
}

// ---------------------------------------------------------------- server process

type cfg struct {
	auth       string // none | htpasswd | mtls
	allowReads bool
	metrics    bool
	asset      bool
	idle       bool // --idle_timeout set ("whatever other options are enabled")
}

func (c cfg) String() string {
	return fmt.Sprintf("auth=%s allow_unauthenticated_reads=%v endpoint_metrics=%v asset_api=%v idle_timeout=%v", c.auth, c.allowReads, c.metrics, c.asset, c.idle)
}

type srv struct {
	cfg        cfg
	cmd        *exec.Cmd
	httpAddr   string
	grpcAddr   string
	tls        bool
	out        *bytes.Buffer
}

func freePort() int {
	l, err := net.Listen("tcp", "127.0.0.1:0")
	if err != nil {
		panic(err)
	}
	defer l.Close()
	return l.Addr().(*net.TCPAddr).Port
}

const validUser, validPass = "alice", "correct horse battery staple"
const shaUser, shaPass = "bob", "pässwörd:with:colons"

func start(t interface{ Fatalf(string, ...any) }, bin, base string, c cfg, p *pki, n int) *srv {
	dir := filepath.Join(base, fmt.Sprintf("cache-%d", n))
	os.MkdirAll(dir, 0o755)
	s := &srv{cfg: c, httpAddr: fmt.Sprintf("127.0.0.1:%d", freePort()), grpcAddr: fmt.Sprintf("127.0.0.1:%d", freePort()), out: &bytes.Buffer{}}
	args := []string{"--dir", dir, "--max_size", "1", "--http_address", s.httpAddr, "--grpc_address", s.grpcAddr, "--access_log_level", "none"}
	switch c.auth {
	case "htpasswd":
		hp := filepath.Join(base, "htpasswd")
		if _, err := os.Stat(hp); err != nil {
			bc, _ := bcrypt.GenerateFromPassword([]byte(validPass), bcrypt.MinCost)
			sh := sha1.Sum([]byte(shaPass))
			os.WriteFile(hp, []byte(fmt.Sprintf("%s:%s\n%s:{SHA}%s\n", validUser, bc, shaUser, base64.StdEncoding.EncodeToString(sh[:]))), 0o600)
		}
		args = append(args, "--htpasswd_file", hp)
	case "mtls":
		args = append(args, "--tls_ca_file", p.caPEM, "--tls_cert_file", p.srvCert, "--tls_key_file", p.srvKey)
		s.tls = true
	}
	if c.allowReads {
		args = append(args, "--allow_unauthenticated_reads")
	}
	if c.metrics {
		args = append(args, "--enable_endpoint_metrics")
	}
	if c.asset {
		args = append(args, "--experimental_remote_asset_api")
	}
	if c.idle {
		args = append(args, "--idle_timeout", "1h")
	}
	s.cmd = exec.Command(bin, args...)
	s.cmd.Stdout, s.cmd.Stderr = s.out, s.out
	if err := s.cmd.Start(); err != nil {
		t.Fatalf("VERIF-INFRA: cannot start %s: %v", bin, err)
	}
	deadline := time.Now().Add(20 * time.Second)
	for _, addr := range []string{s.httpAddr, s.grpcAddr} {
		for {
			conn, err := net.DialTimeout("tcp", addr, 200*time.Millisecond)
			if err == nil {
				conn.Close()
				break
			}
			if time.Now().After(deadline) {
				s.stop()
				fmt.Println("VERIF-INFRA: server did not come up:", s.out.String())
				t.Fatalf("VERIF-INFRA: server did not come up (%v)", c)
			}
			time.Sleep(20 * time.Millisecond)
		}
	}
	return s
}

func (s *srv) stop() {
	if s.cmd != nil && s.cmd.Process != nil {
		s.cmd.Process.Kill()
		s.cmd.Wait()
	}
}

// ---------------------------------------------------------------- credentials

type cred struct {
	class string // none | malformed | unknown-user | wrong-password | valid | no-cert | foreign-cert | valid-cert
	// basic auth
	header    string // full Authorization header value ("" = none)
	authority string // user:pass@ form for gRPC :authority ("" = not used)
	// mTLS
	cert *tls.Certificate
	// a client-side TLS session cache shared by every connection made with
	// this credential: later connections resume the first one's session
	sess tls.ClientSessionCache
}

func basic(u, p string) string {
	return "Basic " + base64.StdEncoding.EncodeToString([]byte(u+":"+p))
}

func (c cred) valid() bool { return c.class == "valid" || c.class == "valid-cert" }

// ---------------------------------------------------------------- operations

type op struct {
	name     string
	readOnly bool // per the statement's list
	dontcare bool // statement does not classify it (served or refused both fine when reads are open)
	health   bool
	asset    bool
	run      func(s *srv, c cred) (served bool, refused bool, detail string)
}

func httpClient(s *srv, p *pki, c cred) *http.Client {
	tr := &http.Transport{DisableKeepAlives: true}
	if s.tls {
		tr.TLSClientConfig = &tls.Config{RootCAs: p.caPool}
		if c.cert != nil {
			tr.TLSClientConfig.Certificates = []tls.Certificate{*c.cert}
		}
		tr.TLSClientConfig.ClientSessionCache = c.sess
	}
	return &http.Client{Transport: tr, Timeout: 10 * time.Second}
}

func httpOp(p *pki, method, path string, body []byte, readOnly bool) op {
	return op{name: "HTTP " + method + " " + path[:min(len(path), 14)], readOnly: readOnly, run: func(s *srv, c cred) (bool, bool, string) {
		scheme := "http"
		if s.tls {
			scheme = "https"
		}
		var rd io.Reader
		if body != nil {
			rd = bytes.NewReader(body)
		}
		req, _ := http.NewRequest(method, scheme+"://"+s.httpAddr+path, rd)
		if c.header != "" {
			req.Header.Set("Authorization", c.header)
		}
		resp, err := httpClient(s, p, c).Do(req)
		if err != nil {
			// a failed TLS handshake is a refusal
			return false, s.tls, "transport error: " + err.Error()
		}
		defer resp.Body.Close()
		io.Copy(io.Discard, resp.Body)
		refused := resp.StatusCode == http.StatusUnauthorized
		return !refused, refused, fmt.Sprint("HTTP ", resp.StatusCode)
	}}
}

func dial(s *srv, p *pki, c cred) (*grpc.ClientConn, error) {
	opts := []grpc.DialOption{}
	if s.tls {
		tc := &tls.Config{RootCAs: p.caPool, ServerName: "127.0.0.1"}
		if c.cert != nil {
			tc.Certificates = []tls.Certificate{*c.cert}
		}
		tc.ClientSessionCache = c.sess
		opts = append(opts, grpc.WithTransportCredentials(credentials.NewTLS(tc)))
	} else {
		opts = append(opts, grpc.WithTransportCredentials(insecure.NewCredentials()))
	}
	if c.authority != "" {
		opts = append(opts, grpc.WithAuthority(c.authority+"@"+s.grpcAddr))
	}
	return grpc.NewClient("passthrough:///"+s.grpcAddr, opts...)
}

func grpcOp(p *pki, name string, readOnly, dontcare bool, call func(ctx context.Context, cc *grpc.ClientConn) error) op {
	return op{name: name, readOnly: readOnly, dontcare: dontcare, run: func(s *srv, c cred) (bool, bool, string) {
		cc, err := dial(s, p, c)
		if err != nil {
			return false, false, "dial: " + err.Error()
		}
		defer cc.Close()
		ctx, cancel := context.WithTimeout(context.Background(), 10*time.Second)
		defer cancel()
		if c.header != "" {
			ctx = metadata.AppendToOutgoingContext(ctx, "authorization", c.header)
		}
		err = call(ctx, cc)
		code := status.Code(err)
		refused := code == codes.Unauthenticated || (code == codes.Unavailable && s.tls) // handshake failure surfaces as Unavailable
		return !refused, refused, "gRPC " + code.String() + errText(err)
	}}
}

func errText(err error) string {
	if err == nil {
		return ""
	}
	s := err.Error()
	if len(s) > 90 {
		s = s[:90]
	}
	return " (" + s + ")"
}

func ops(p *pki, n int) []op {
	blob := gen.Expand(uint64(n)+1, 64, "rand")
	h := gen.SHA(blob)
	dg := &pb.Digest{Hash: h, SizeBytes: 64}
	arKey := gen.SHA([]byte(fmt.Sprint("ar", n)))
	var out []op
	for _, m := range []string{"GET", "HEAD"} {
		out = append(out, httpOp(p, m, "/cas/"+h, nil, true), httpOp(p, m, "/ac/"+arKey, nil, true), httpOp(p, m, "/inst/ac/"+arKey, nil, true), httpOp(p, m, "/status", nil, true), httpOp(p, m, "/metrics", nil, true))
	}
	out = append(out, httpOp(p, "PUT", "/cas/"+h, blob, false), httpOp(p, "PUT", "/ac/"+arKey, []byte{0x20, 0x01}, false), httpOp(p, "PUT", "/inst/ac/"+arKey, []byte{0x20, 0x02}, false))
	for _, m := range []string{"POST", "DELETE", "PATCH", "OPTIONS"} {
		out = append(out, httpOp(p, m, "/cas/"+h, blob, false))
	}
	out = append(out,
		grpcOp(p, "ActionCache/GetActionResult", true, false, func(ctx context.Context, cc *grpc.ClientConn) error {
			_, err := pb.NewActionCacheClient(cc).GetActionResult(ctx, &pb.GetActionResultRequest{ActionDigest: &pb.Digest{Hash: arKey, SizeBytes: 1}})
			return err
		}),
		grpcOp(p, "ActionCache/UpdateActionResult", false, false, func(ctx context.Context, cc *grpc.ClientConn) error {
			_, err := pb.NewActionCacheClient(cc).UpdateActionResult(ctx, &pb.UpdateActionResultRequest{ActionDigest: &pb.Digest{Hash: gen.SHA([]byte(fmt.Sprint("g", n))), SizeBytes: 1}, ActionResult: &pb.ActionResult{ExitCode: 1}})
			return err
		}),
		grpcOp(p, "CAS/FindMissingBlobs", true, false, func(ctx context.Context, cc *grpc.ClientConn) error {
			_, err := pb.NewContentAddressableStorageClient(cc).FindMissingBlobs(ctx, &pb.FindMissingBlobsRequest{BlobDigests: []*pb.Digest{dg}})
			return err
		}),
		grpcOp(p, "CAS/BatchUpdateBlobs", false, false, func(ctx context.Context, cc *grpc.ClientConn) error {
			d2 := gen.Expand(uint64(n)+500, 32, "rand")
			_, err := pb.NewContentAddressableStorageClient(cc).BatchUpdateBlobs(ctx, &pb.BatchUpdateBlobsRequest{Requests: []*pb.BatchUpdateBlobsRequest_Request{{Digest: &pb.Digest{Hash: gen.SHA(d2), SizeBytes: 32}, Data: d2}}})
			return err
		}),
		grpcOp(p, "CAS/BatchReadBlobs", true, false, func(ctx context.Context, cc *grpc.ClientConn) error {
			_, err := pb.NewContentAddressableStorageClient(cc).BatchReadBlobs(ctx, &pb.BatchReadBlobsRequest{Digests: []*pb.Digest{dg}})
			return err
		}),
		grpcOp(p, "CAS/GetTree", true, false, func(ctx context.Context, cc *grpc.ClientConn) error {
			st, err := pb.NewContentAddressableStorageClient(cc).GetTree(ctx, &pb.GetTreeRequest{RootDigest: dg})
			if err != nil {
				return err
			}
			_, err = st.Recv()
			if err == io.EOF {
				return nil
			}
			return err
		}),
		grpcOp(p, "CAS/SpliceBlob", false, false, func(ctx context.Context, cc *grpc.ClientConn) error {
			_, err := pb.NewContentAddressableStorageClient(cc).SpliceBlob(ctx, &pb.SpliceBlobRequest{BlobDigest: dg, ChunkDigests: []*pb.Digest{dg}})
			return err
		}),
		grpcOp(p, "CAS/SplitBlob", false, true, func(ctx context.Context, cc *grpc.ClientConn) error {
			_, err := pb.NewContentAddressableStorageClient(cc).SplitBlob(ctx, &pb.SplitBlobRequest{BlobDigest: dg})
			return err
		}),
		grpcOp(p, "Capabilities/GetCapabilities", true, false, func(ctx context.Context, cc *grpc.ClientConn) error {
			_, err := pb.NewCapabilitiesClient(cc).GetCapabilities(ctx, &pb.GetCapabilitiesRequest{})
			return err
		}),
		grpcOp(p, "ByteStream/Read", true, false, func(ctx context.Context, cc *grpc.ClientConn) error {
			st, err := bytestream.NewByteStreamClient(cc).Read(ctx, &bytestream.ReadRequest{ResourceName: fmt.Sprintf("blobs/%s/64", h)})
			if err != nil {
				return err
			}
			for err == nil {
				_, err = st.Recv()
			}
			if err == io.EOF {
				return nil
			}
			return err
		}),
		grpcOp(p, "ByteStream/Write", false, false, func(ctx context.Context, cc *grpc.ClientConn) error {
			d3 := gen.Expand(uint64(n)+900, 48, "rand")
			st, err := bytestream.NewByteStreamClient(cc).Write(ctx)
			if err != nil {
				return err
			}
			_ = st.Send(&bytestream.WriteRequest{ResourceName: fmt.Sprintf("uploads/u/blobs/%s/48", gen.SHA(d3)), Data: d3, FinishWrite: true})
			_, err = st.CloseAndRecv()
			return err
		}),
		grpcOp(p, "ByteStream/QueryWriteStatus", false, true, func(ctx context.Context, cc *grpc.ClientConn) error {
			_, err := bytestream.NewByteStreamClient(cc).QueryWriteStatus(ctx, &bytestream.QueryWriteStatusRequest{ResourceName: fmt.Sprintf("uploads/u/blobs/%s/64", h)})
			return err
		}),
		grpcOp(p, "Execution/Execute (not registered)", false, true, func(ctx context.Context, cc *grpc.ClientConn) error {
			st, err := pb.NewExecutionClient(cc).Execute(ctx, &pb.ExecuteRequest{ActionDigest: dg})
			if err != nil {
				return err
			}
			_, err = st.Recv()
			return err
		}),
		grpcOp(p, "Health/Watch", false, true, func(ctx context.Context, cc *grpc.ClientConn) error {
			ctx2, cancel := context.WithTimeout(ctx, 500*time.Millisecond)
			defer cancel()
			st, err := grpc_health_v1.NewHealthClient(cc).Watch(ctx2, &grpc_health_v1.HealthCheckRequest{Service: "/grpc.health.v1.Health/Check"})
			if err != nil {
				return err
			}
			_, err = st.Recv()
			return err
		}),
	)
	hc := grpcOp(p, "Health/Check", true, false, func(ctx context.Context, cc *grpc.ClientConn) error {
		_, err := grpc_health_v1.NewHealthClient(cc).Check(ctx, &grpc_health_v1.HealthCheckRequest{Service: "/grpc.health.v1.Health/Check"})
		return err
	})
	hc.health = true
	out = append(out, hc)
	fb := grpcOp(p, "Fetch/FetchBlob", false, false, func(ctx context.Context, cc *grpc.ClientConn) error {
		_, err := asset.NewFetchClient(cc).FetchBlob(ctx, &asset.FetchBlobRequest{Uris: []string{"http://127.0.0.1:1/nothing"}})
		return err
	})
	fb.asset = true
	fd := grpcOp(p, "Fetch/FetchDirectory", false, true, func(ctx context.Context, cc *grpc.ClientConn) error {
		_, err := asset.NewFetchClient(cc).FetchDirectory(ctx, &asset.FetchDirectoryRequest{Uris: []string{"http://127.0.0.1:1/nothing"}})
		return err
	})
	fd.asset = true
	out = append(out, fb, fd)
	return out
}

type statusPage struct{ NumFiles int }

func numFiles(s *srv, p *pki, valid cred) int {
	scheme := "http"
	if s.tls {
		scheme = "https"
	}
	req, _ := http.NewRequest("GET", scheme+"://"+s.httpAddr+"/status", nil)
	if valid.header != "" {
		req.Header.Set("Authorization", valid.header)
	}
	resp, err := httpClient(s, p, valid).Do(req)
	if err != nil {
		return -1
	}
	defer resp.Body.Close()
	var sp statusPage
	if json.NewDecoder(resp.Body).Decode(&sp) != nil {
		return -1
	}
	return sp.NumFiles
}

func TestC13Auth(t *testing.T) {
	bin := os.Getenv("VERIF_BIN")
	if bin == "" {
		fmt.Println("VERIF-INFRA: VERIF_BIN not set (the driver builds the real binary)")
		t.Fatal("VERIF-INFRA")
	}
	base, err := os.MkdirTemp(stack.ScratchBase(), "c13-")
	if err != nil {
		t.Fatal(err)
	}
	defer os.RemoveAll(base)
	p := newPKI(base)
	E.SetRule("the REAL binary, built from the working tree, is launched per configuration in {no auth, htpasswd (bcrypt and {SHA} entries), mTLS} × allow_unauthenticated_reads × enable_endpoint_metrics × experimental_remote_asset_api × idle_timeout (36 launches, exhaustive); for each: HTTP {GET, HEAD, PUT, POST, DELETE, PATCH, OPTIONS} × {/cas/<h>, /ac/<h>, /<inst>/ac/<h>, /status, /metrics} and every method of every service in the repository's gRPC descriptors × credential state. The finite product is enumerated exhaustively with fixed representatives; rapid additionally generates credential material per class (user names and passwords with unicode/colons, prefixes and extensions of the valid password, empty parts, bad base64, other schemes, the :authority user:pass@host form, certificates signed by another CA). Oracle: a table written from the statement with the harness's own list of read-only operations; refused = HTTP 401 / failed TLS handshake / gRPC UNAUTHENTICATED; no auth => everything served; valid credentials => served; otherwise writes refused regardless of the reads option, read-only operations refused unless it is set, only Health/Check always open; /status NumFiles is unchanged by all unauthenticated traffic. non-trivial: authentication enabled and credentials not valid; distinct by (configuration, operation, credential class)")
	// -------- exhaustive part
	var cfgs []cfg
	for _, a := range []string{"none", "htpasswd", "mtls"} {
		for _, reads := range []bool{false, true} {
			if a == "none" && reads {
				continue // refused at start-up (C19)
			}
			for _, m := range []bool{false, true} {
				for _, as := range []bool{false, true} {
					for _, idle := range []bool{false, true} {
						if a == "none" && idle {
							continue
						}
						cfgs = append(cfgs, cfg{a, reads, m, as, idle})
					}
				}
			}
		}
	}
	shard, nshards := int(envInt("VERIF_SHARD", 0)), int(envInt("VERIF_SHARDS", 1))
	n := 0
	for ci, c := range cfgs {
		if ci%nshards != shard%nshards {
			continue
		}
		n++
		s := start(t, bin, base, c, p, ci)
		func() {
			defer s.stop()
			var creds []cred
			var valid cred
			switch c.auth {
			case "none":
				creds = []cred{{class: "none"}}
				valid = creds[0]
			case "htpasswd":
				valid = cred{class: "valid", header: basic(validUser, validPass)}
				creds = []cred{{class: "none"}, {class: "malformed", header: "Basic !!!notbase64"}, {class: "malformed", header: "Basic " + base64.StdEncoding.EncodeToString([]byte("nocolon"))}, {class: "malformed", header: "Bearer abcdef"},
					{class: "unknown-user", header: basic("mallory", validPass)}, {class: "wrong-password", header: basic(validUser, validPass+"x")}, {class: "wrong-password", header: basic(validUser, validPass[:len(validPass)-1])}, {class: "wrong-password", header: basic(validUser, "")},
					{class: "wrong-password", authority: validUser + ":nope"}, {class: "unknown-user", authority: "mallory:" + validPass},
					valid, {class: "valid", header: basic(shaUser, shaPass)}, {class: "valid", authority: validUser + ":" + validPass},
					// order matters for anything that remembers a successful login
					{class: "wrong-password", header: basic(validUser, validPass+"x")}, {class: "wrong-password", authority: validUser + ":nope"}, {class: "none"}}
			case "mtls":
				valid = cred{class: "valid-cert", cert: &p.clientCert}
				// "no-cert-resumed": a certificate-less client that keeps a session
				// cache, so that all but its first connection resume a TLS session;
				// once before and once after a valid client has been served
				creds = []cred{{class: "no-cert"}, {class: "no-cert-resumed", sess: tls.NewLRUClientSessionCache(8)}, {class: "foreign-cert", cert: &p.foreignClientCert}, valid,
					{class: "no-cert-resumed", sess: tls.NewLRUClientSessionCache(8)}}
			}
			before := numFiles(s, p, valid)
			for _, cr := range creds {
				for _, o := range ops(p, ci*100+len(creds)) {
					if cr.authority != "" && strings.HasPrefix(o.name, "HTTP") {
						continue
					}
					if strings.Contains(cr.authority, " ") {
						continue
					}
					served, refused, detail := o.run(s, cr)
					evaluate(t.Fatalf, c, o, cr, served, refused, detail, s)
				}
				if !cr.valid() && c.auth != "none" {
					if after := numFiles(s, p, valid); after != before {
						t.Fatalf("cache content changed (NumFiles %d -> %d) by traffic with %s credentials under %v", before, after, cr.class, c)
					}
				} else {
					before = numFiles(s, p, valid)
				}
			}
		}()
	}
	E.LabelN("configurations-launched", int64(n))

	// -------- generated credential material against one htpasswd server per reads option
	for _, reads := range []bool{false, true} {
		if (map[bool]int{false: 0, true: 1}[reads])%nshards != shard%nshards && nshards > 1 {
			continue
		}
		c := cfg{"htpasswd", reads, true, true, true}
		s := start(t, bin, base, c, p, 1000+map[bool]int{false: 0, true: 1}[reads])
		allOps := ops(p, 7777)
		rt.Check(t, rt.N(150, 1500), func(rt *rapid.T) {
			class := rapid.SampledFrom([]string{"unknown-user", "wrong-password", "wrong-password", "malformed", "valid"}).Draw(rt, "class")
			var cr cred
			user, pass := validUser, validPass
			switch class {
			case "unknown-user":
				user = rapid.SampledFrom([]string{"", "Alice", "alice ", " alice", "alicé", "root", "alice\x00", rapid.StringN(1, 30, -1).Draw(rt, "user")}).Draw(rt, "userPick")
				if user == validUser || user == shaUser {
					user += "_"
				}
			case "wrong-password":
				pass = rapid.SampledFrom([]string{"", validPass[:5], validPass + " ", strings.ToUpper(validPass), validPass + validPass, "correct horse battery stapl", shaPass, rapid.StringN(0, 80, -1).Draw(rt, "pass")}).Draw(rt, "passPick")
				if pass == validPass {
					pass += "!"
				}
			case "malformed":
				cr.header = rapid.SampledFrom([]string{"Basic", "Basic ", "basic " + base64.StdEncoding.EncodeToString([]byte(validUser+":"+validPass))[:10], "Basic " + base64.StdEncoding.EncodeToString([]byte(validUser)), "Digest username=\"alice\"", "Basic " + strings.Repeat("A", 5000), "Negotiate x", rapid.StringMatching(`[ -~]{0,40}`).Draw(rt, "hdr")}).Draw(rt, "hdrPick")
				if dec, err := base64.StdEncoding.DecodeString(strings.TrimPrefix(cr.header, "Basic ")); err == nil && strings.HasPrefix(cr.header, "Basic ") && string(dec) == validUser+":"+validPass {
					cr.header = "Basic x"
				}
			}
			cr.class = class
			useAuthority := rapid.Bool().Draw(rt, "viaAuthority") && class != "malformed" && !strings.ContainsAny(user+pass, " @/\x00") && user != "" && isASCII(user+pass)
			if class != "malformed" {
				if useAuthority {
					cr.authority = user + ":" + pass
				} else {
					cr.header = basic(user, pass)
				}
			}
			o := allOps[rapid.IntRange(0, len(allOps)-1).Draw(rt, "op")]
			if cr.authority != "" && strings.HasPrefix(o.name, "HTTP") {
				cr.header, cr.authority = basic(user, pass), ""
			}
			served, refused, detail := o.run(s, cr)
			evaluate(rt.Fatalf, c, o, cr, served, refused, detail, s)
		})
		s.stop()
	}
}

func isASCII(s string) bool {
	for _, r := range s {
		if r > 126 || r < 33 {
			return false
		}
	}
	return true
}

func envInt(name string, d int64) int64 {
	var v int64
	if _, err := fmt.Sscan(os.Getenv(name), &v); err == nil {
		return v
	}
	return d
}

func evaluate(fatalf func(string, ...any), c cfg, o op, cr cred, served, refused bool, detail string, s *srv) {
	if o.asset && !c.asset {
		return // not registered in this configuration: UNIMPLEMENTED for everyone
	}
	want := "served"
	switch {
	case c.auth == "none" || cr.valid():
		want = "served"
	case o.health:
		want = "served"
	case o.dontcare:
		want = "either"
		if !c.allowReads {
			want = "not-served-or-same-as-valid"
		}
	case !o.readOnly:
		want = "refused"
	case c.allowReads:
		want = "served"
	default:
		want = "refused"
	}
	nontrivial := c.auth != "none" && !cr.valid()
	E.Case(fmt.Sprintf("%v|%s|%s|%s", c, o.name, cr.class, want), nontrivial, "auth="+c.auth, fmt.Sprintf("reads=%v", c.allowReads), "cred="+cr.class, "want="+want, fmt.Sprintf("metrics=%v", c.metrics))
	if nontrivial {
		E.Sample(c.auth+"/"+cr.class+"/"+want, map[string]any{"config": c.String(), "operation": o.name, "credentials": cr.class, "authorization_header": trunc(cr.header), "authority": cr.authority, "expected": want, "observed": detail})
	}
	ctxs := fmt.Sprintf("config: %v; operation: %s; credentials: %s (header %q authority %q) -> %s", c, o.name, cr.class, trunc(cr.header), cr.authority, detail)
	switch want {
	case "served":
		// "/metrics" without endpoint metrics is 404 for everyone; unsupported HTTP methods are 405 for everyone
		if refused {
			fatalf("refused although it must be served: %s", ctxs)
		}
	case "refused":
		if !refused {
			// an answer that a valid client gets as well for an endpoint that does not exist (404/405/UNIMPLEMENTED) is "not served"
			if strings.HasPrefix(detail, "HTTP 405") || (strings.Contains(o.name, "/metrics") && !c.metrics && strings.HasPrefix(detail, "HTTP 404")) || strings.HasPrefix(detail, "gRPC Unimplemented") {
				return
			}
			fatalf("served without valid credentials: %s", ctxs)
		}
	case "not-served-or-same-as-valid":
		if !refused && !strings.HasPrefix(detail, "gRPC Unimplemented") && !strings.HasPrefix(detail, "gRPC OK") && !strings.HasPrefix(detail, "gRPC DeadlineExceeded") {
			// QueryWriteStatus / Health.Watch / FetchDirectory reveal or change nothing; only flag an actual success below
		}
		if strings.HasPrefix(detail, "gRPC OK") && (strings.Contains(o.name, "QueryWriteStatus") || strings.Contains(o.name, "Watch")) {
			fatalf("served without valid credentials although unauthenticated reads are not allowed: %s", ctxs)
		}
	}
}

func trunc(s string) string {
	if len(s) > 60 {
		return s[:60] + "..."
	}
	return s
}
