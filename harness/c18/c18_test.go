package c18

import (
	"bytes"
	"context"
	"encoding/base64"
	"encoding/hex"
	"fmt"
	"io"
	"net/http"
	"net/http/httptest"
	"strconv"
	"strings"
	"sync"
	"testing"

	"github.com/buchgr/bazel-remote/v2/cache"
	"github.com/buchgr/bazel-remote/v2/cache/disk"
	asset "github.com/buchgr/bazel-remote/v2/genproto/build/bazel/remote/asset/v1"
	pb "github.com/buchgr/bazel-remote/v2/genproto/build/bazel/remote/execution/v2"
	"google.golang.org/grpc/codes"
	"google.golang.org/grpc/status"
	"google.golang.org/protobuf/proto"
	"pgregory.net/rapid"

	"verif/harness/internal/casfmt"
	"verif/harness/internal/cl"
	"verif/harness/internal/ev"
	"verif/harness/internal/fproxy"
	"verif/harness/internal/gen"
	"verif/harness/internal/rt"
	"verif/harness/internal/stack"
)

var E = ev.Get("C18")

var (
	upMu   sync.Mutex
	upObjs = map[string][]byte{}
	upSrv  *httptest.Server
	upSeq  int
)

func TestMain(m *testing.M) {
	upSrv = httptest.NewServer(http.HandlerFunc(func(w http.ResponseWriter, r *http.Request) {
		upMu.Lock()
		d, ok := upObjs[r.URL.Path]
		upMu.Unlock()
		if !ok {
			http.NotFound(w, r)
			return
		}
		if strings.HasSuffix(r.URL.Path, "c") { // chunked: no Content-Length
			w.(http.Flusher).Flush()
		} else {
			w.Header().Set("Content-Length", strconv.Itoa(len(d)))
		}
		w.Write(d)
	}))
	rt.Main(m, "C18")
}

func upstream(d []byte, chunked bool) string {
	upMu.Lock()
	defer upMu.Unlock()
	upSeq++
	p := fmt.Sprintf("/o/%d", upSeq)
	if chunked {
		p += "c"
	}
	upObjs[p] = d
	if len(upObjs) > 32 {
		for k := range upObjs {
			if k != p {
				delete(upObjs, k)
				break
			}
		}
	}
	return upSrv.URL + p
}

var paths = []string{"http", "http-zstd", "batch", "batch-zstd", "bs", "bs-zstd", "splice", "splice-nodigest", "ac-inline", "fetch"}

type result struct {
	enclosing int64 // size of the enclosing message that is itself stored as an item (ac-inline)
	ok        bool
	clientErr bool // refused with a client error (400 / INVALID_ARGUMENT / non-OK per-blob or response status)
	info      string
}

func grpcRes(err error) result {
	if err == nil {
		return result{ok: true, info: "OK"}
	}
	return result{clientErr: status.Code(err) == codes.InvalidArgument, info: err.Error()}
}

func upload(t *rapid.T, s *stack.Stack, path string, b gen.Blob, L int64) result {
	z := func() []byte { return gen.ZstdGo(b.Data, 1, false) }
	switch path {
	case "http":
		r := cl.HTTPPut(s, "/cas/"+b.Hash, nil, b.Data)
		return result{ok: r.Code == 200, clientErr: r.Code == 400, info: fmt.Sprintf("HTTP %d %.80s", r.Code, r.Body)}
	case "http-zstd":
		r := cl.HTTPPut(s, "/cas/"+b.Hash, map[string]string{"Content-Encoding": "zstd", "X-Digest-SizeBytes": fmt.Sprint(b.Size)}, z())
		return result{ok: r.Code == 200, clientErr: r.Code == 400, info: fmt.Sprintf("HTTP %d %.80s", r.Code, r.Body)}
	case "batch", "batch-zstd":
		req := &pb.BatchUpdateBlobsRequest_Request{Digest: &pb.Digest{Hash: b.Hash, SizeBytes: b.Size}, Data: b.Data}
		if path == "batch-zstd" {
			req.Data, req.Compressor = z(), pb.Compressor_ZSTD
		}
		resp, err := cl.BatchUpdate(s, []*pb.BatchUpdateBlobsRequest_Request{req})
		if err != nil {
			return grpcRes(err)
		}
		c := codes.Code(resp.Responses[0].Status.GetCode())
		return result{ok: c == codes.OK, clientErr: c == codes.InvalidArgument, info: "per-blob status " + c.String()}
	case "bs", "bs-zstd":
		zz := path == "bs-zstd"
		payload := b.Data
		if zz {
			payload = z()
		}
		var cuts []int
		if len(payload) > 2 {
			cuts = []int{rapid.IntRange(1, len(payload)-1).Draw(t, "cut")}
		}
		r := cl.BSWrite(s, cl.Chunked(cl.WriteName("", "u", b.Hash, b.Size, zz, ""), payload, cuts, true), false)
		return result{ok: r.Code == codes.OK, clientErr: r.Code == codes.InvalidArgument, info: fmt.Sprintf("%v %v", r.Code, r.Err)}
	case "splice", "splice-nodigest":
		// chunks are ordinary blobs and must themselves respect the limit
		var cds []*pb.Digest
		step := int(L)
		if step > len(b.Data) {
			step = len(b.Data)
		}
		if step > 1 && rapid.Bool().Draw(t, "smallerChunks") {
			step = rapid.IntRange(1, step).Draw(t, "chunkLen")
		}
		if len(b.Data)/step > 64 {
			step = len(b.Data)/64 + 1
			if int64(step) > L {
				return result{info: "skip"}
			}
		}
		for off := 0; off < len(b.Data); off += step {
			end := off + step
			if end > len(b.Data) {
				end = len(b.Data)
			}
			c := b.Data[off:end]
			h := gen.SHA(c)
			if err := s.Cache.Put(context.Background(), cache.CAS, h, int64(len(c)), bytes.NewReader(c)); err != nil {
				t.Fatalf("chunk of %d bytes (limit %d) refused: %v", len(c), L, err)
			}
			cds = append(cds, &pb.Digest{Hash: h, SizeBytes: int64(len(c))})
		}
		if len(cds) == 1 {
			return result{info: "skip"} // the blob is its own chunk: already present
		}
		req := &pb.SpliceBlobRequest{ChunkDigests: cds}
		if path == "splice" {
			req.BlobDigest = &pb.Digest{Hash: b.Hash, SizeBytes: b.Size}
		}
		ctx, cancel := cl.Ctx()
		defer cancel()
		_, err := s.CAS.SpliceBlob(ctx, req)
		return grpcRes(err)
	case "ac-inline":
		field := rapid.SampledFrom([]string{"file", "stdout", "stderr"}).Draw(t, "field")
		ar := &pb.ActionResult{}
		d := &pb.Digest{Hash: b.Hash, SizeBytes: b.Size}
		switch field {
		case "file":
			ar.OutputFiles = []*pb.OutputFile{{Path: "o", Digest: d, Contents: b.Data}}
		case "stdout":
			ar.StdoutRaw = b.Data
			if rapid.Bool().Draw(t, "withDigest") {
				ar.StdoutDigest = d
			}
		default:
			ar.StderrRaw, ar.StderrDigest = b.Data, d
		}
		ctx, cancel := cl.Ctx()
		defer cancel()
		_, err := s.AC.UpdateActionResult(ctx, &pb.UpdateActionResultRequest{ActionDigest: &pb.Digest{Hash: gen.SHA([]byte("k")), SizeBytes: 1}, ActionResult: ar})
		r := grpcRes(err)
		r.enclosing = int64(proto.Size(ar)) + 64 // the server adds a worker name before storing
		return r
	case "fetch":
		req := &asset.FetchBlobRequest{Uris: []string{upstream(b.Data, rapid.Bool().Draw(t, "chunked"))}}
		if rapid.Bool().Draw(t, "sri") {
			raw, _ := hex.DecodeString(b.Hash)
			req.Qualifiers = []*asset.Qualifier{{Name: "checksum.sri", Value: "sha256-" + base64.StdEncoding.EncodeToString(raw)}}
		}
		ctx, cancel := cl.Ctx()
		defer cancel()
		resp, err := s.Asset.FetchBlob(ctx, req)
		if err != nil {
			return grpcRes(err)
		}
		c := codes.Code(resp.GetStatus().GetCode())
		return result{ok: c == codes.OK, clientErr: c != codes.OK, info: "response status " + c.String()}
	}
	panic(path)
}

func TestC18Ingress(t *testing.T) {
	E.SetRule("ingress: rapid draws max_blob_size L in {1..2 MiB, block and chunk edges} × logical size in {L-1, L, L+1, L+4096, 2L, 10L} × content (incompressible / highly compressible: tiny transport size) × write path (10) × storage mode; GetCapabilities. backend: max_proxy_blob_size P × object size in {P-1, P, P+1, 3P} × kind × {Get size known/unknown, Contains known/unknown, FindMissingBlobs, dependency check} × backend that reports sizes or cannot. Oracle: size <= L => accepted and present; size > L => client-error status and nothing stored; advertised max_cas_blob_size_bytes = L; nothing > P served, cached or reported present through the backend and FindMissing never asks the backend about digests > P. non-trivial: size within ±1 of a limit, or transport size <= limit < logical size; distinct by (path or op, relation of size to limit, limit class, storage, content)")
	rt.Check(t, rt.N(700, 5000), func(t *rapid.T) {
		storage := rapid.SampledFrom([]string{"zstd", "uncompressed"}).Draw(t, "storage")
		L := int64(rapid.SampledFrom([]int{1, 2, 100, 4095, 4096, 4097, 70000, gen.MiB - 1, gen.MiB, gen.MiB + 1, 2 * gen.MiB}).Draw(t, "L"))
		if rapid.IntRange(0, 3).Draw(t, "Lrandom") == 0 {
			L = int64(rapid.IntRange(1, 2*gen.MiB).Draw(t, "Lval"))
		}
		rel := rapid.SampledFrom([]string{"L-1", "L", "L", "L+1", "L+1", "L+4096", "2L", "10L"}).Draw(t, "rel")
		var n int64
		switch rel {
		case "L-1":
			n = L - 1
		case "L":
			n = L
		case "L+1":
			n = L + 1
		case "L+4096":
			n = L + 4096
		case "2L":
			n = 2 * L
		default:
			n = 10 * L
			if n > 5*gen.MiB {
				n = L + 5*gen.MiB/4
			}
		}
		if n < 1 {
			n, rel = 1, "L"
			if L < 1 {
				L = 1
			}
		}
		content := rapid.SampledFrom([]string{"rand", "zero", "text"}).Draw(t, "content")
		path := rapid.SampledFrom(paths).Draw(t, "path")
		b := gen.MakeBlob(rapid.Uint64Range(0, 1000).Draw(t, "seed"), int(n), content, rel)
		// An oversize blob the cache already holds - here: stored before the
		// limit was lowered (the server is restarted on the same directory with
		// max_blob_size L). Uploading it again is still an upload of an oversize item.
		known := false
		dir := ""
		if n > L && path != "splice" && path != "splice-nodigest" && path != "fetch" && path != "ac-inline" && rapid.IntRange(0, 3).Draw(t, "alreadyKnown") == 0 {
			dir = stack.FreshDir()
			defer stack.RecycleDir(dir)
			s0, err := stack.New(stack.Opts{Storage: storage, Dir: dir, NoServers: true})
			if err != nil {
				t.Fatal(err)
			}
			if err := s0.Cache.Put(context.Background(), cache.CAS, b.Hash, b.Size, bytes.NewReader(b.Data)); err != nil {
				t.Fatal(err)
			}
			known = true
			E.Label("oversize:already-known")
		}
		s, err := stack.New(stack.Opts{Storage: storage, MaxBlob: L, Dir: dir})
		if err != nil {
			t.Fatal(err)
		}
		defer s.Close()
		res := upload(t, s, path, b, L)
		if res.info == "skip" {
			return
		}
		transportSmall := strings.HasSuffix(path, "-zstd") && content != "rand" && n > L
		nontrivial := rel == "L-1" || rel == "L" || rel == "L+1" || transportSmall
		E.Case(fmt.Sprintf("%s|%s|%s|%s|%d", path, rel, storage, content, lclass(L)), nontrivial, "path="+path, "rel="+rel, "storage="+storage, fmt.Sprintf("Lclass=%d", lclass(L)), fmt.Sprintf("transportSmall=%v", transportSmall))
		E.Sample(path+"/"+rel, map[string]any{"path": path, "max_blob_size": L, "size": n, "content": content, "storage": storage, "server": res.info})
		ctxs := fmt.Sprintf("path=%s L=%d size=%d (%s) content=%s storage=%s already-known=%v -> %s", path, L, n, rel, content, storage, known, res.info)
		present, perr := cl.Present(s, b.Hash, b.Size)
		if perr != nil {
			t.Fatalf("FindMissingBlobs: %v", perr)
		}
		if n <= L && res.enclosing > L {
			// The ActionResult that carries the inlined bytes is itself an item and
			// is larger than the limit: refusing the request is right.
			E.Label("dontcare:enclosing-message-over-limit")
			if res.ok {
				t.Fatalf("ActionResult of ~%d bytes accepted with max_blob_size %d: %s", res.enclosing, L, ctxs)
			}
		} else if n <= L {
			if !res.ok {
				t.Fatalf("item within max_blob_size refused: %s", ctxs)
			}
			if !present {
				t.Fatalf("accepted item not present: %s", ctxs)
			}
		} else {
			if res.ok {
				t.Fatalf("item larger than max_blob_size accepted: %s", ctxs)
			}
			if !res.clientErr {
				t.Fatalf("item larger than max_blob_size refused, but not with a client error: %s", ctxs)
			}
			if present && !known {
				t.Fatalf("refused oversize item is present: %s", ctxs)
			}
			for _, e := range disk.VerifIndexSnapshot(s.Cache) {
				if e.Size > L && !known {
					t.Fatalf("an entry of logical size %d > max_blob_size was stored (%s): %s", e.Size, e.Key, ctxs)
				}
			}
		}
		ctx, cancel := cl.Ctx()
		caps, err := s.Caps.GetCapabilities(ctx, &pb.GetCapabilitiesRequest{})
		cancel()
		if err != nil || caps.GetCacheCapabilities().GetMaxCasBlobSizeBytes() != L {
			t.Fatalf("GetCapabilities advertises max_cas_blob_size_bytes=%d, configured %d (%v)", caps.GetCacheCapabilities().GetMaxCasBlobSizeBytes(), L, err)
		}
		if s.Panics() > 0 {
			t.Fatalf("panic: %v", s.PanicLog)
		}
	})
}

func lclass(L int64) int {
	switch {
	case L < 100:
		return 0
	case L < 5000:
		return 1
	case L < 1<<20:
		return 2
	}
	return 3
}

const sigF17 = "proxy-limit-bypass/op=contains/size=unknown/backend-size=unknown"

func TestC18ProxyLimit(t *testing.T) {
	rt.Check(t, rt.N(500, 4000), func(t *rapid.T) {
		storage := rapid.SampledFrom([]string{"zstd", "uncompressed"}).Draw(t, "storage")
		P := int64(rapid.SampledFrom([]int{1, 50, 1000, 4096, 70000}).Draw(t, "P"))
		rel := rapid.SampledFrom([]string{"P-1", "P", "P+1", "P+1", "3P"}).Draw(t, "rel")
		var n int64
		switch rel {
		case "P-1":
			n = P - 1
		case "P":
			n = P
		case "P+1":
			n = P + 1
		default:
			n = 3*P + 1
		}
		if n < 1 {
			n, rel = 1, "P"
		}
		kind := rapid.SampledFrom([]cache.EntryKind{cache.CAS, cache.CAS, cache.AC, cache.RAW}).Draw(t, "kind")
		op := rapid.SampledFrom([]string{"get-known", "get-unknown", "contains-known", "contains-unknown", "findmissing", "depcheck", "http-get", "http-head"}).Draw(t, "op")
		if kind != cache.CAS && (op == "findmissing" || op == "depcheck" || op == "http-get" || op == "http-head") {
			op = "get-unknown"
		}
		sizeUnknownBackend := rapid.Bool().Draw(t, "backendCannotReportSize")
		px := fproxy.New()
		px.ContainsSizeUnknown = sizeUnknownBackend
		s, err := stack.New(stack.Opts{Storage: storage, Proxy: px, ProxyMax: P})
		if err != nil {
			t.Fatal(err)
		}
		defer s.Close()
		data := gen.Expand(rapid.Uint64Range(0, 50).Draw(t, "seed"), int(n), "rand")
		var hash string
		if kind == cache.CAS {
			hash = gen.SHA(data)
		} else {
			ar := &pb.ActionResult{StdoutRaw: data, ExecutionMetadata: &pb.ExecutedActionMetadata{Worker: "w"}}
			data, _ = proto.Marshal(ar)
			// pad/trim is not possible for a message: use its real size
			n = int64(len(data))
			hash = gen.SHA([]byte("ackey"))
		}
		over := n > P
		stored := data
		if kind == cache.CAS && storage == "zstd" {
			stored = casfmt.Encode(data, gen.Chunk, func(b []byte) []byte { return gen.ZstdGo(b, 1, false) })
		}
		px.Set(kind, hash, fproxy.Obj{Stored: stored, Logical: n})
		if over && sizeUnknownBackend && (op == "contains-unknown" || op == "http-head") && E.IsListed(sigF17) {
			// known finding F17: excluded by construction so that the search continues behind it
			E.Excluded()
			op = "get-unknown"
		}
		key := cache.LookupKey(kind, hash)
		E.Case(fmt.Sprintf("proxy|%s|%s|%s|%s|%v", op, rel, kind, storage, sizeUnknownBackend), over == (rel == "P+1") || rel == "P" || rel == "P-1",
			"op="+op, "prel="+rel, "kind="+kind.String(), fmt.Sprintf("backendSizeUnknown=%v", sizeUnknownBackend), fmt.Sprintf("over=%v", over))
		E.Sample("proxy/"+op+"/"+rel, map[string]any{"op": op, "max_proxy_blob_size": P, "object_size": n, "kind": kind.String(), "storage": storage, "backend_reports_size": !sizeUnknownBackend})
		ctxs := fmt.Sprintf("op=%s P=%d objsize=%d kind=%s storage=%s backendSizeUnknown=%v", op, P, n, kind, storage, sizeUnknownBackend)
		servedOrPresent := false
		switch op {
		case "get-known", "get-unknown":
			sz := n
			if op == "get-unknown" {
				sz = -1
			}
			rc, _, err := s.Cache.Get(context.Background(), kind, hash, sz, 0)
			if rc != nil {
				got, _ := io.ReadAll(rc)
				rc.Close()
				servedOrPresent = true
				if !bytes.Equal(got, data) {
					t.Fatalf("backend object served with wrong bytes: %s", ctxs)
				}
			}
			_ = err
		case "contains-known", "contains-unknown":
			sz := n
			if op == "contains-unknown" {
				sz = -1
			}
			servedOrPresent, _ = s.Cache.Contains(context.Background(), kind, hash, sz)
		case "findmissing":
			m, err := cl.FindMissing(s, "", []*pb.Digest{{Hash: hash, SizeBytes: n}})
			if err != nil {
				t.Fatal(err)
			}
			servedOrPresent = len(m) == 0
		case "depcheck":
			ar := &pb.ActionResult{OutputFiles: []*pb.OutputFile{{Path: "o", Digest: &pb.Digest{Hash: hash, SizeBytes: n}}}, ExecutionMetadata: &pb.ExecutedActionMetadata{Worker: "w"}}
			body, _ := proto.Marshal(ar)
			k := gen.SHA([]byte("dep"))
			if err := s.Cache.Put(context.Background(), cache.AC, k, int64(len(body)), bytes.NewReader(body)); err != nil {
				t.Fatal(err)
			}
			ctx, cancel := cl.Ctx()
			_, err := s.AC.GetActionResult(ctx, &pb.GetActionResultRequest{ActionDigest: &pb.Digest{Hash: k, SizeBytes: 1}})
			cancel()
			servedOrPresent = err == nil
		case "http-get":
			r := cl.HTTPGet(s, "/cas/"+hash, nil)
			servedOrPresent = r.Code == 200
		case "http-head":
			r := cl.HTTPHead(s, "/cas/"+hash)
			servedOrPresent = r.Code == 200
			ctxs += fmt.Sprintf(" (HEAD -> %d %v)", r.Code, r.Err)
		}
		cached := false
		for _, e := range disk.VerifIndexSnapshot(s.Cache) {
			if e.Key == key {
				cached = true
			}
		}
		if over {
			if servedOrPresent {
				sig := ""
				if sizeUnknownBackend && (op == "contains-unknown" || op == "http-head") {
					sig = sigF17
				}
				if sig == "" || !E.Known(sig) {
					t.Fatalf("object larger than max_proxy_blob_size was served / reported present through the backend: %s", ctxs)
				}
			}
			if cached {
				t.Fatalf("object larger than max_proxy_blob_size was cached locally: %s", ctxs)
			}
			for _, c := range px.ContCallsCopy() {
				if strings.HasPrefix(c, key+"/") && op == "findmissing" {
					t.Fatalf("FindMissingBlobs asked the backend about a digest larger than max_proxy_blob_size (%s): %s", c, ctxs)
				}
			}
		} else {
			if !servedOrPresent {
				t.Fatalf("object within max_proxy_blob_size not served / reported through the backend: %s", ctxs)
			}
			if strings.HasPrefix(op, "get") || op == "http-get" {
				if !cached {
					t.Fatalf("fetched object within max_proxy_blob_size was not cached locally: %s", ctxs)
				}
			}
		}
	})
}

// TestC18KnownF17 re-demonstrates the listed known finding (if it is listed)
// so that the driver prints its KNOWN-FINDING line; it never fails.
func TestC18KnownF17(t *testing.T) {
	if !E.IsListed(sigF17) {
		t.Skip("not listed")
	}
	px := fproxy.New()
	px.ContainsSizeUnknown = true
	s, err := stack.New(stack.Opts{Proxy: px, ProxyMax: 1000})
	if err != nil {
		t.Fatal(err)
	}
	defer s.Close()
	data := gen.Expand(1, 60000, "rand")
	px.Set(cache.CAS, gen.SHA(data), fproxy.Obj{Stored: casfmt.Encode(data, gen.Chunk, func(b []byte) []byte { return gen.ZstdGo(b, 1, false) }), Logical: 60000})
	if ok, _ := s.Cache.Contains(context.Background(), cache.CAS, gen.SHA(data), -1); ok {
		E.Known(sigF17)
	}
	E.Case("known-F17-probe", true, "probe=F17")
}
