package c18

import (
	"context"
	"fmt"
	"io"
	"log"
	"net/http"
	"net/http/httptest"
	"net/url"
	"sync"
	"testing"

	"github.com/buchgr/bazel-remote/v2/cache"
	"github.com/buchgr/bazel-remote/v2/cache/httpproxy"
	pb "github.com/buchgr/bazel-remote/v2/genproto/build/bazel/remote/execution/v2"
	"pgregory.net/rapid"

	"verif/harness/internal/casfmt"
	"verif/harness/internal/cl"
	"verif/harness/internal/gen"
	"verif/harness/internal/rt"
	"verif/harness/internal/stack"
)

// TestC18RealHTTPBackend: max_proxy_blob_size in front of the REAL HTTP proxy
// backend (the scripted backend of TestC18ProxyLimit decides for itself what
// sizes it reports; here the proxy package does). In uncompressed mode the
// backend's Content-Length is the blob size, so every operation must respect
// the limit; in zstd mode the proxy cannot know sizes and the size-unknown
// existence checks are the listed finding F17 (not generated here).
func TestC18RealHTTPBackend(t *testing.T) {
	quiet := log.New(io.Discard, "", 0)
	rt.Check(t, rt.N(120, 900), func(t *rapid.T) {
		mode := rapid.SampledFrom([]string{"uncompressed", "uncompressed", "zstd"}).Draw(t, "mode")
		var mu sync.Mutex
		objs := map[string][]byte{}
		srv := httptest.NewServer(http.HandlerFunc(func(w http.ResponseWriter, r *http.Request) {
			mu.Lock()
			b, ok := objs[r.URL.Path]
			mu.Unlock()
			switch r.Method {
			case "GET", "HEAD":
				if !ok {
					http.NotFound(w, r)
					return
				}
				w.Header().Set("Content-Length", fmt.Sprint(len(b)))
				if r.Method == "GET" {
					_, _ = w.Write(b)
				}
			case "PUT":
				body, _ := io.ReadAll(r.Body)
				mu.Lock()
				objs[r.URL.Path] = body
				mu.Unlock()
			}
		}))
		defer srv.Close()
		u, _ := url.Parse(srv.URL)
		hp, err := httpproxy.New(u, mode, &http.Client{}, quiet, quiet, 2, 10)
		if err != nil {
			t.Fatal(err)
		}
		P := int64(rapid.SampledFrom([]int{1, 100, 4096, 70000}).Draw(t, "P"))
		rel := rapid.SampledFrom([]string{"P-1", "P", "P+1", "P+1", "3P", "3P"}).Draw(t, "rel")
		n := map[string]int64{"P-1": P - 1, "P": P, "P+1": P + 1, "3P": 3 * P}[rel]
		if n < 1 {
			n, rel = 1, "P"
			if P < 1 {
				P = 1
			}
		}
		s, err := stack.New(stack.Opts{Storage: mode, Proxy: hp, ProxyMax: P})
		if err != nil {
			t.Fatal(err)
		}
		defer s.Close()
		data := gen.Expand(uint64(n)+7, int(n), "rand")
		h := gen.SHA(data)
		if mode == "zstd" {
			objs["/cas.v2/"+h] = casfmt.Encode(data, gen.Chunk, func(b []byte) []byte { return gen.ZstdGo(b, 1, false) })
		} else {
			objs["/cas/"+h] = data
		}
		over := n > P
		ops := []string{"http-get", "http-head", "contains-known", "contains-unknown", "findmissing", "bs-read"}
		if mode == "zstd" {
			ops = []string{"http-get", "contains-known", "findmissing", "bs-read"} // size-unknown existence checks: F17
		}
		op := rapid.SampledFrom(ops).Draw(t, "op")
		served := false
		switch op {
		case "http-get":
			r := cl.HTTPGet(s, "/cas/"+h, nil)
			served = r.Code == 200
		case "http-head":
			r := cl.HTTPHead(s, "/cas/"+h)
			served = r.Code == 200
		case "contains-known":
			served, _ = s.Cache.Contains(ctxBG(), cache.CAS, h, n)
		case "contains-unknown":
			served, _ = s.Cache.Contains(ctxBG(), cache.CAS, h, -1)
		case "findmissing":
			missing, err := s.Cache.FindMissingCasBlobs(ctxBG(), []*pb.Digest{{Hash: h, SizeBytes: n}})
			served = err == nil && len(missing) == 0
		case "bs-read":
			got, _, _ := cl.BSRead(s, cl.ReadName("", h, n, false), 0, 0)
			served = int64(len(got)) == n
		}
		ctxs := fmt.Sprintf("backend=real httpproxy mode=%s P=%d objsize=%d (%s) op=%s -> served/present=%v", mode, P, n, rel, op, served)
		E.Case(fmt.Sprintf("realhttp|%s|%s|%s|%d", mode, rel, op, P), rel == "P" || rel == "P+1" || rel == "P-1", "backend=real-http", "realhttp-mode="+mode, "realhttp-op="+op, "realhttp-rel="+rel)
		E.Sample("realhttp/"+op+"/"+rel, map[string]any{"mode": mode, "max_proxy_blob_size": P, "object_size": n, "op": op, "served_or_present": served})
		if over && served {
			t.Fatalf("object larger than max_proxy_blob_size was served / reported present through the real HTTP backend: %s", ctxs)
		}
		if !over && !served {
			t.Fatalf("object within max_proxy_blob_size held by the backend was not served / reported present: %s", ctxs)
		}
	})
}

func ctxBG() context.Context { return context.Background() }
