package c04

import (
	"bytes"
	"context"
	"fmt"
	"testing"
	"time"

	"github.com/buchgr/bazel-remote/v2/cache"
	"pgregory.net/rapid"

	"verif/harness/internal/gen"
	"verif/harness/internal/inv"
	"verif/harness/internal/rt"
	"verif/harness/internal/stack"
)

// TestC04ModeSwitch: the history continues across a restart, possibly under
// the OTHER storage mode (old-format entries stay indexed and are served): the
// entries written before the restart are later overwritten, re-uploaded and
// evicted by the new instance. Oracle as in TestC04Directory (shallow): at
// quiescence the set of files equals the index snapshot - no predecessor of an
// overwritten key, no evicted entry survives, whichever format its file has.
func TestC04ModeSwitch(t *testing.T) {
	rt.Check(t, rt.N(150, 1200), func(t *rapid.T) {
		before := rapid.SampledFrom([]string{"zstd", "uncompressed"}).Draw(t, "storageBefore")
		after := rapid.SampledFrom([]string{"zstd", "uncompressed"}).Draw(t, "storageAfter")
		maxBlocks := rapid.IntRange(8, 40).Draw(t, "maxBlocks")
		maxSize := int64(maxBlocks) * 4096
		s1, err := stack.New(stack.Opts{Storage: before, MaxSize: maxSize, NoServers: true})
		if err != nil {
			t.Fatal(err)
		}
		type item struct {
			kind cache.EntryKind
			hash string
			data []byte
		}
		var items []item
		n := rapid.IntRange(1, 8).Draw(t, "nBefore")
		for i := 0; i < n; i++ {
			kind := rapid.SampledFrom([]cache.EntryKind{cache.CAS, cache.CAS, cache.AC, cache.RAW}).Draw(t, "kind")
			size := rapid.SampledFrom([]int{1, 100, 4096, 5000, 12000}).Draw(t, "size")
			data := gen.Expand(uint64(i)+1, size, rapid.SampledFrom([]string{"rand", "text"}).Draw(t, "content"))
			hash := gen.SHA(data)
			if kind != cache.CAS {
				hash = gen.SHA([]byte(fmt.Sprint("key", i)))
			}
			if err := s1.Cache.Put(context.Background(), kind, hash, int64(len(data)), bytes.NewReader(data)); err == nil {
				items = append(items, item{kind, hash, data})
			}
		}
		s1.WaitEvictions(10 * time.Second)
		if err := inv.DirEqualsIndex(s1); err != nil {
			t.Fatalf("before the restart: %v", err)
		}
		dir := s1.Dir
		s1.StopServers()
		s, err := stack.New(stack.Opts{Storage: after, MaxSize: maxSize, Dir: dir, NoServers: true})
		if err != nil {
			t.Fatalf("restart %s -> %s: %v", before, after, err)
		}
		defer stack.RecycleDir(dir)
		defer s.Close()
		var hist []string
		overwrites, fillers := 0, 0
		m := rapid.IntRange(1, 10).Draw(t, "nAfter")
		for i := 0; i < m; i++ {
			switch rapid.SampledFrom([]string{"reupload", "reupload", "overwrite", "filler", "filler", "read"}).Draw(t, "op") {
			case "reupload": // the same bytes under the same key (CAS: same digest), new format
				if len(items) == 0 {
					continue
				}
				it := items[rapid.IntRange(0, len(items)-1).Draw(t, "which")]
				err := s.Cache.Put(context.Background(), it.kind, it.hash, int64(len(it.data)), bytes.NewReader(it.data))
				hist = append(hist, fmt.Sprintf("reupload %s/%s.. (%d bytes) -> %v", it.kind, it.hash[:8], len(it.data), err))
				overwrites++
			case "overwrite": // AC / RAW keys take another value
				if len(items) == 0 {
					continue
				}
				k := rapid.IntRange(0, len(items)-1).Draw(t, "which")
				if items[k].kind == cache.CAS {
					continue
				}
				d := gen.Expand(uint64(100+i), rapid.SampledFrom([]int{1, 300, 7000}).Draw(t, "newSize"), "text")
				err := s.Cache.Put(context.Background(), items[k].kind, items[k].hash, int64(len(d)), bytes.NewReader(d))
				hist = append(hist, fmt.Sprintf("overwrite %s/%s.. (%d bytes) -> %v", items[k].kind, items[k].hash[:8], len(d), err))
				overwrites++
			case "filler":
				d := gen.Expand(uint64(500+i), int(maxSize)/rapid.IntRange(2, 5).Draw(t, "fraction"), "rand")
				err := s.Cache.Put(context.Background(), cache.CAS, gen.SHA(d), int64(len(d)), bytes.NewReader(d))
				hist = append(hist, fmt.Sprintf("filler (%d bytes) -> %v", len(d), err))
				fillers++
			case "read":
				if len(items) == 0 {
					continue
				}
				it := items[rapid.IntRange(0, len(items)-1).Draw(t, "which")]
				rc, _, err := s.Cache.Get(context.Background(), it.kind, it.hash, -1, 0)
				if rc != nil {
					rc.Close()
				}
				hist = append(hist, fmt.Sprintf("read %s/%s.. -> hit=%v err=%v", it.kind, it.hash[:8], rc != nil, err))
			}
		}
		E.Case(fmt.Sprintf("modeswitch|%s->%s|%d|%v|%v", before, after, len(items), overwrites > 0, fillers > 0), overwrites+fillers > 0, "modeswitch="+before+"->"+after, fmt.Sprintf("modeswitch-overwrites=%v", overwrites > 0), fmt.Sprintf("modeswitch-evicting=%v", fillers > 0))
		E.Sample("modeswitch/"+before+after, map[string]any{"storage_before": before, "storage_after": after, "entries_before_restart": len(items), "max_size": maxSize, "history_after_restart": hist})
		if err := inv.SettledAccounting(s, maxSize, 3*time.Second); err != nil {
			t.Fatalf("after a restart %s -> %s: %v\nhistory: %v", before, after, err, hist)
		}
		if err := inv.DirEqualsIndex(s); err != nil {
			t.Fatalf("after a restart %s -> %s: %v\nhistory after the restart: %v", before, after, err, hist)
		}
	})
}
