package c04

import (
	"fmt"
	"strings"
	"testing"

	"pgregory.net/rapid"

	"verif/harness/internal/ev"
	"verif/harness/internal/machine"
	"verif/harness/internal/rt"
)

func TestMain(m *testing.M) { rt.Main(m, "C04") }

var E = ev.Get("C04")

func drawMax(t *rapid.T) int64 {
	switch rapid.IntRange(0, 3).Draw(t, "maxClass") {
	case 0:
		return int64(rapid.IntRange(4, 16).Draw(t, "maxBlocks")) * 4096
	case 1:
		return int64(rapid.IntRange(16*1024, 256*1024).Draw(t, "maxBytes"))
	case 2:
		return int64(rapid.IntRange(16, 256).Draw(t, "maxBlocks")) * 4096
	}
	return int64(rapid.IntRange(256*1024, 1024*1024).Draw(t, "maxBytes"))
}

// TestC04Directory: same history machine as C03, weighted towards failures
// at every stage; whenever nothing is in flight and the deletion backlog has
// drained, the directory must equal the index.
func TestC04Directory(t *testing.T) {
	E.SetRule("rapid state machine over one small cache (as C03: puts, overwrites, lookups, failing uploads short/long/reader-error/hash-mismatch, held uploads completed/aborted/corrupted, commit refusals of incompressible near-max items, backend fetches with faults before the response / nil reader / wrong or unknown size / stream error or clean EOF at byte k / bad header / garbage). Oracle at quiescence (no request open, VerifQueuedEvictionBytes = 0 polled exactly): set of regular files under the cache dir = {harness's own naming function(entry)} for the index snapshot, file length = recorded on-disk size; (deep) compressed CAS files parse with the independent reader and decode to `logical` bytes whose SHA-256 is the key, raw files have exactly the logical length and hold the bytes last accepted. non-trivial: >=1 failure after the file was created, or an overwrite, or an eviction; distinct by the sequence of (rule, outcome)")
	rt.Check(t, rt.N(250, 2000), func(t *rapid.T) {
		cfg := machine.Cfg{MaxSize: drawMax(t), Storage: rapid.SampledFrom([]string{"zstd", "uncompressed"}).Draw(t, "storage"), Codec: rapid.SampledFrom([]string{"go", "cgo"}).Draw(t, "codec"),
			Failures: true, Held: true, Proxy: rapid.Bool().Draw(t, "proxy")}
		m := machine.New(t, cfg)
		defer m.Close()
		var shape []string
		evictions := 0
		checks := 0
		step := func(name string, f func(*rapid.T)) func(*rapid.T) {
			return func(t *rapid.T) {
				before := m.Snapshot()
				f(t)
				after := m.Snapshot()
				for k, e := range before {
					if ne, ok := after[k]; !ok || ne.Random != e.Random {
						evictions++
						break
					}
				}
				shape = append(shape, name)
				if len(m.Held) == 0 {
					m.CheckDirectory(t, false)
					checks++
				}
			}
		}
		t.Repeat(map[string]func(*rapid.T){
			"put":          step("put", func(t *rapid.T) { m.Put(t) }),
			"failput":      step("failput", m.FailPut),
			"failput2":     step("failput", m.FailPut),
			"hold":         step("hold", m.Hold),
			"release":      step("release", m.Release),
			"get":          step("get", m.Get),
			"findmissing":  step("findmissing", m.FindMissing),
			"validated-ac": step("vac", m.ValidatedAC),
			"fetch":        step("fetch", m.Fetch),
			"fetch2":       step("fetch", m.Fetch),
			"deep-check": func(t *rapid.T) {
				if len(m.Held) > 0 {
					t.Skip("requests in flight")
				}
				m.CheckDirectory(t, true)
				checks++
			},
		})
		for len(m.Held) > 0 {
			m.Release(t)
		}
		m.CheckDirectory(t, true)
		checks++
		nontrivial := m.Flags["fail-after-reserve"] || m.Flags["overwrite"] || evictions > 0 || m.Flags["fetch-fault"]
		labels := []string{"storage=" + cfg.Storage, fmt.Sprintf("proxy=%v", cfg.Proxy), fmt.Sprintf("nontrivial=%v", nontrivial), fmt.Sprintf("evictions>0=%v", evictions > 0)}
		for _, f := range []string{"overwrite", "put-rejected", "fail-after-reserve", "held", "fetch", "fetch-fault"} {
			if m.Flags[f] {
				labels = append(labels, "has="+f)
			}
		}
		E.Case(strings.Join(shape, ","), nontrivial, labels...)
		E.LabelN("steps", int64(len(shape)))
		E.LabelN("directory-checks", int64(checks))
		if nontrivial {
			E.Sample(fmt.Sprintf("held=%v,fetchfault=%v", m.Flags["held"], m.Flags["fetch-fault"]), map[string]any{"max_size": cfg.MaxSize, "storage": cfg.Storage, "proxy": cfg.Proxy, "history": m.Log})
		}
	})
}
