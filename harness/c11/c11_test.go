package c11

import (
	"bytes"
	"context"
	"fmt"
	"strings"
	"testing"

	"github.com/buchgr/bazel-remote/v2/cache"
	pb "github.com/buchgr/bazel-remote/v2/genproto/build/bazel/remote/execution/v2"
	"google.golang.org/grpc/codes"
	"google.golang.org/grpc/status"
	"google.golang.org/protobuf/encoding/protojson"
	"google.golang.org/protobuf/proto"
	"google.golang.org/protobuf/types/known/anypb"
	"google.golang.org/protobuf/types/known/timestamppb"
	"google.golang.org/protobuf/types/known/wrapperspb"
	"pgregory.net/rapid"

	"verif/harness/internal/cl"
	"verif/harness/internal/ev"
	"verif/harness/internal/gen"
	"verif/harness/internal/rt"
	"verif/harness/internal/stack"
)

func TestMain(m *testing.M) { rt.Main(m, "C11") }

var E = ev.Get("C11")

const maxInline = 3 * 1024 * 1024

type world struct {
	t *rapid.T
	s *stack.Stack
	n int
}

func (w *world) blob(label string, big bool) []byte {
	w.n++
	size := rapid.IntRange(1, 200).Draw(w.t, label+".size")
	if big {
		size = rapid.SampledFrom([]int{300000, 1100000, 1600000, 2200000}).Draw(w.t, label+".bigsize")
	}
	return gen.Expand(uint64(w.n)*131, size, rapid.SampledFrom([]string{"rand", "text"}).Draw(w.t, label+".content"))
}

func (w *world) store(data []byte) *pb.Digest {
	h := gen.SHA(data)
	if err := w.s.Cache.Put(context.Background(), cache.CAS, h, int64(len(data)), bytes.NewReader(data)); err != nil {
		w.t.Fatal(err)
	}
	return &pb.Digest{Hash: h, SizeBytes: int64(len(data))}
}

func dg(data []byte) *pb.Digest { return &pb.Digest{Hash: gen.SHA(data), SizeBytes: int64(len(data))} }

// genValid draws a valid ActionResult; every blob referenced by digest only
// is pre-stored so that dependency-checked lookups can hit.
func (w *world) genValid(allowBig bool) *pb.ActionResult {
	t := w.t
	ar := &pb.ActionResult{ExitCode: int32(rapid.IntRange(-1, 255).Draw(t, "exit"))}
	bigLeft := 0
	if allowBig && rapid.IntRange(0, 5).Draw(t, "big") == 0 {
		bigLeft = rapid.IntRange(1, 3).Draw(t, "nbig")
	}
	nf := rapid.IntRange(0, 4).Draw(t, "nfiles")
	for i := 0; i < nf; i++ {
		f := &pb.OutputFile{Path: rapid.SampledFrom([]string{"out/a", "b.txt", "deep/er/path/c", "ünï", "with space", "d"}).Draw(t, "path") + fmt.Sprint(i), IsExecutable: rapid.Bool().Draw(t, "exec")}
		big := bigLeft > 0 && rapid.Bool().Draw(t, "thisBig")
		if big {
			bigLeft--
		}
		data := w.blob("file", big)
		f.Digest = dg(data)
		if rapid.Bool().Draw(t, "inlineFile") {
			f.Contents = data
		}
		w.store(data)
		if rapid.IntRange(0, 3).Draw(t, "nodeprops") == 0 {
			f.NodeProperties = &pb.NodeProperties{Properties: []*pb.NodeProperty{{Name: "k", Value: "v"}}, Mtime: timestamppb.New(timestamppb.Now().AsTime().Truncate(1e9)), UnixMode: wrapperspb.UInt32(0o755)}
		}
		ar.OutputFiles = append(ar.OutputFiles, f)
	}
	for i, n := 0, rapid.IntRange(0, 2).Draw(t, "ndirs"); i < n; i++ {
		tree := &pb.Tree{Root: &pb.Directory{Symlinks: []*pb.SymlinkNode{{Name: "s", Target: fmt.Sprint("t", i)}}}}
		if rapid.Bool().Draw(t, "treeFile") {
			d := w.store(w.blob("treefile", false))
			tree.Root.Files = []*pb.FileNode{{Name: "f", Digest: d}}
		}
		tb, _ := proto.Marshal(tree)
		ar.OutputDirectories = append(ar.OutputDirectories, &pb.OutputDirectory{Path: fmt.Sprintf("dir%d", i), TreeDigest: w.store(tb), IsTopologicallySorted: rapid.Bool().Draw(t, "topo")})
	}
	sym := func(label string) []*pb.OutputSymlink {
		var out []*pb.OutputSymlink
		for i, n := 0, rapid.IntRange(0, 2).Draw(t, label); i < n; i++ {
			out = append(out, &pb.OutputSymlink{Path: fmt.Sprintf("%s%d", label, i), Target: rapid.SampledFrom([]string{"../x", "/abs/target", "t"}).Draw(t, "target")})
		}
		return out
	}
	ar.OutputFileSymlinks = sym("fsym")
	ar.OutputSymlinks = sym("sym")
	ar.OutputDirectorySymlinks = sym("dsym")
	for _, which := range []string{"stdout", "stderr"} {
		mode := rapid.SampledFrom([]string{"none", "digest", "raw", "raw", "both"}).Draw(t, which)
		if mode == "none" {
			continue
		}
		big := bigLeft > 0 && rapid.Bool().Draw(t, "thisBig")
		if big {
			bigLeft--
		}
		data := w.blob(which, big)
		var d *pb.Digest
		var raw []byte
		switch mode {
		case "digest":
			d = w.store(data)
		case "raw":
			raw = data
		case "both":
			raw, d = data, w.store(data)
		}
		if which == "stdout" {
			ar.StdoutRaw, ar.StdoutDigest = raw, d
		} else {
			ar.StderrRaw, ar.StderrDigest = raw, d
		}
	}
	if rapid.Bool().Draw(t, "metadata") {
		ar.ExecutionMetadata = &pb.ExecutedActionMetadata{Worker: rapid.SampledFrom([]string{"", "", "worker-7"}).Draw(t, "worker"),
			QueuedTimestamp: &timestamppb.Timestamp{Seconds: int64(rapid.IntRange(0, 2000000000).Draw(t, "ts"))}}
		if rapid.IntRange(0, 3).Draw(t, "aux") == 0 {
			a, _ := anypb.New(&pb.Digest{Hash: "abc", SizeBytes: 3})
			ar.ExecutionMetadata.AuxiliaryMetadata = []*anypb.Any{a}
		}
	}
	return ar
}

var invalidKinds = []string{"nil-file", "empty-file-path", "abs-file-path", "nil-file-digest", "neg-file-digest", "short-hash", "upper-hash", "nonhex-hash",
	"nil-dir", "abs-dir-path", "nil-tree-digest", "neg-tree-digest", "bad-tree-hash",
	"nil-symlink", "empty-symlink-path", "empty-symlink-target", "abs-symlink-path", "neg-stdout-digest", "bad-stderr-hash"}

const goodHash = "aaaaaaaaaaaaaaaaaaaaaaaaaaaaaaaaaaaaaaaaaaaaaaaaaaaaaaaaaaaaaaaa"

func makeInvalid(t *rapid.T, ar *pb.ActionResult, kind string) {
	d := &pb.Digest{Hash: goodHash, SizeBytes: 5}
	symField := rapid.IntRange(0, 2).Draw(t, "symField")
	addSym := func(s *pb.OutputSymlink) {
		switch symField {
		case 0:
			ar.OutputFileSymlinks = append(ar.OutputFileSymlinks, s)
		case 1:
			ar.OutputSymlinks = append(ar.OutputSymlinks, s)
		default:
			ar.OutputDirectorySymlinks = append(ar.OutputDirectorySymlinks, s)
		}
	}
	switch kind {
	case "nil-file":
		ar.OutputFiles = append(ar.OutputFiles, nil)
	case "empty-file-path":
		ar.OutputFiles = append(ar.OutputFiles, &pb.OutputFile{Path: "", Digest: d})
	case "abs-file-path":
		ar.OutputFiles = append(ar.OutputFiles, &pb.OutputFile{Path: "/etc/passwd", Digest: d})
	case "nil-file-digest":
		ar.OutputFiles = append(ar.OutputFiles, &pb.OutputFile{Path: "x"})
	case "neg-file-digest":
		ar.OutputFiles = append(ar.OutputFiles, &pb.OutputFile{Path: "x", Digest: &pb.Digest{Hash: goodHash, SizeBytes: -1}})
	case "short-hash":
		ar.OutputFiles = append(ar.OutputFiles, &pb.OutputFile{Path: "x", Digest: &pb.Digest{Hash: goodHash[:63], SizeBytes: 1}})
	case "upper-hash":
		ar.OutputFiles = append(ar.OutputFiles, &pb.OutputFile{Path: "x", Digest: &pb.Digest{Hash: strings.ToUpper(goodHash), SizeBytes: 1}})
	case "nonhex-hash":
		ar.OutputFiles = append(ar.OutputFiles, &pb.OutputFile{Path: "x", Digest: &pb.Digest{Hash: "g" + goodHash[1:], SizeBytes: 1}})
	case "nil-dir":
		ar.OutputDirectories = append(ar.OutputDirectories, nil)
	case "abs-dir-path":
		ar.OutputDirectories = append(ar.OutputDirectories, &pb.OutputDirectory{Path: "/abs", TreeDigest: d})
	case "nil-tree-digest":
		ar.OutputDirectories = append(ar.OutputDirectories, &pb.OutputDirectory{Path: "dd"})
	case "neg-tree-digest":
		ar.OutputDirectories = append(ar.OutputDirectories, &pb.OutputDirectory{Path: "dd", TreeDigest: &pb.Digest{Hash: goodHash, SizeBytes: -7}})
	case "bad-tree-hash":
		ar.OutputDirectories = append(ar.OutputDirectories, &pb.OutputDirectory{Path: "dd", TreeDigest: &pb.Digest{Hash: "xyz", SizeBytes: 7}})
	case "nil-symlink":
		addSym(nil)
	case "empty-symlink-path":
		addSym(&pb.OutputSymlink{Path: "", Target: "t"})
	case "empty-symlink-target":
		addSym(&pb.OutputSymlink{Path: "p", Target: ""})
	case "abs-symlink-path":
		addSym(&pb.OutputSymlink{Path: "/p", Target: "t"})
	case "neg-stdout-digest":
		ar.StdoutRaw = nil
		ar.StdoutDigest = &pb.Digest{Hash: goodHash, SizeBytes: -1}
	case "bad-stderr-hash":
		ar.StderrRaw = nil
		ar.StderrDigest = &pb.Digest{Hash: goodHash + "0", SizeBytes: 1}
	}
	// the offending output file may also carry inlined contents
	switch kind {
	case "neg-file-digest", "short-hash", "upper-hash", "nonhex-hash", "empty-file-path", "abs-file-path":
		if f := ar.OutputFiles[len(ar.OutputFiles)-1]; f != nil && rapid.Bool().Draw(t, "invalidFileInlined") {
			f.Contents = []byte("inlined contents of the offending file")
		}
	}
}

// canonical form for comparison: worker filled, and for stdout / stderr /
// files the pair (digest, bytes) reduced to the digest (given or computed).
func canon(in *pb.ActionResult) *pb.ActionResult {
	ar := proto.Clone(in).(*pb.ActionResult)
	if ar.ExecutionMetadata == nil {
		ar.ExecutionMetadata = &pb.ExecutedActionMetadata{}
	}
	if ar.ExecutionMetadata.Worker == "" {
		ar.ExecutionMetadata.Worker = "<filled>"
	}
	if len(ar.StdoutRaw) > 0 && ar.StdoutDigest == nil {
		ar.StdoutDigest = dg(ar.StdoutRaw)
	}
	if len(ar.StderrRaw) > 0 && ar.StderrDigest == nil {
		ar.StderrDigest = dg(ar.StderrRaw)
	}
	ar.StdoutRaw, ar.StderrRaw = nil, nil
	for _, f := range ar.OutputFiles {
		f.Contents = nil
	}
	return ar
}

func sameModuloDocumented(t *rapid.T, uploaded, got *pb.ActionResult, what, ctxs string) {
	a, b := canon(uploaded), canon(got)
	if uploaded.GetExecutionMetadata().GetWorker() == "" {
		if got.GetExecutionMetadata().GetWorker() == "" {
			t.Fatalf("%s: worker name not filled in: %s", what, ctxs)
		}
		b.ExecutionMetadata.Worker = "<filled>"
	}
	if !proto.Equal(a, b) {
		t.Fatalf("%s: returned message differs from the uploaded one beyond the documented changes\nuploaded(canonical): %v\nreturned(canonical): %v\n%s", what, a, b, ctxs)
	}
	// any inlined bytes must hash to their digest and equal the uploaded bytes
	chk := func(name string, raw []byte, d *pb.Digest) {
		if len(raw) == 0 {
			return
		}
		if d != nil && (gen.SHA(raw) != d.Hash || int64(len(raw)) != d.SizeBytes) {
			t.Fatalf("%s: %s: inlined bytes do not match digest %v: %s", what, name, d, ctxs)
		}
	}
	chk("stdout", got.StdoutRaw, canon(got).StdoutDigest)
	chk("stderr", got.StderrRaw, canon(got).StderrDigest)
	for _, f := range got.OutputFiles {
		chk(f.Path, f.Contents, f.Digest)
	}
}

type upload struct {
	via  string // grpc | http-proto | http-json
	zstd bool
}

func (w *world) doUpload(u upload, key string, ar *pb.ActionResult) (bool, string) {
	switch u.via {
	case "grpc":
		ctx, cancel := cl.Ctx()
		defer cancel()
		_, err := w.s.AC.UpdateActionResult(ctx, &pb.UpdateActionResultRequest{ActionDigest: &pb.Digest{Hash: key, SizeBytes: 42}, ActionResult: ar})
		return err == nil, fmt.Sprint(err)
	default:
		var body []byte
		hdr := map[string]string{}
		if u.via == "http-json" {
			b, err := protojson.Marshal(ar)
			if err != nil {
				return false, "harness: not representable in JSON: " + err.Error()
			}
			body = b
			hdr["Content-Type"] = "application/json"
		} else {
			body, _ = proto.Marshal(ar)
		}
		if u.zstd {
			hdr["X-Digest-SizeBytes"] = fmt.Sprint(len(body))
			hdr["Content-Encoding"] = "zstd"
			body = gen.ZstdGo(body, 1, false)
		}
		r := cl.HTTPPut(w.s, "/ac/"+key, hdr, body)
		return r.Code == 200, fmt.Sprintf("HTTP %d %.100s", r.Code, r.Body)
	}
}

type view struct {
	hit bool
	ar  *pb.ActionResult
	raw []byte
}

func (w *world) httpGet(key string, json bool) view {
	hdr := map[string]string{}
	if json {
		hdr["Accept"] = "application/json"
	}
	r := cl.HTTPGet(w.s, "/ac/"+key, hdr)
	if r.Code != 200 {
		return view{}
	}
	ar := &pb.ActionResult{}
	var err error
	if json {
		err = protojson.Unmarshal(r.Body, ar)
	} else {
		err = proto.Unmarshal(r.Body, ar)
	}
	if err != nil {
		w.t.Fatalf("stored action result does not parse (json=%v): %v", json, err)
	}
	return view{hit: true, ar: ar, raw: r.Body}
}

func isValid(ar *pb.ActionResult) error {
	okd := func(d *pb.Digest) bool {
		if d == nil {
			return true
		}
		if d.SizeBytes < 0 || len(d.Hash) != 64 {
			return false
		}
		for _, c := range d.Hash {
			if !(c >= '0' && c <= '9' || c >= 'a' && c <= 'f') {
				return false
			}
		}
		return true
	}
	for _, f := range ar.OutputFiles {
		if f == nil || f.Path == "" || strings.HasPrefix(f.Path, "/") || f.Digest == nil || !okd(f.Digest) {
			return fmt.Errorf("bad output file %v", f)
		}
	}
	for _, d := range ar.OutputDirectories {
		if d == nil || strings.HasPrefix(d.Path, "/") || d.TreeDigest == nil || !okd(d.TreeDigest) {
			return fmt.Errorf("bad output directory %v", d)
		}
	}
	for _, l := range [][]*pb.OutputSymlink{ar.OutputFileSymlinks, ar.OutputSymlinks, ar.OutputDirectorySymlinks} {
		for _, s := range l {
			if s == nil || s.Path == "" || s.Target == "" || strings.HasPrefix(s.Path, "/") {
				return fmt.Errorf("bad symlink %v", s)
			}
		}
	}
	if !okd(ar.StdoutDigest) || !okd(ar.StderrDigest) {
		return fmt.Errorf("bad stdout/stderr digest")
	}
	return nil
}

func TestC11ActionResults(t *testing.T) {
	E.SetRule("rapid grammar over every field of ActionResult (files inline or by digest, executable bit, node properties, directories with Trees, three symlink lists, stdout/stderr raw / digest / both, exit code, execution metadata incl. Any of a registered type; some fields 0.3-2.2 MiB to cross the 3 MiB inlining budget), valid or with exactly one invalid field of each kind the statement names, plus gRPC uploads whose inline bytes do not match their digest; upload via gRPC / HTTP protobuf / HTTP JSON, plain or zstd+X-Digest-SizeBytes; 1-3 uploads to the same key; read via gRPC GetActionResult with every inline-request combination, HTTP GET protobuf and JSON. Oracle: harness validity predicate => accepted/rejected; a rejected upload leaves all three views of the key unchanged; a hit is proto.Equal to the last accepted upload after normalising worker name and (digest,bytes) pairs; inlined iff asked and within budget; de-inlined bytes are in the CAS under their SHA-256; JSON view == protobuf view; stored bytes parse and validate. non-trivial: >=3 populated field kinds, or an invalid variant, or an inline/de-inline transition; distinct by (shape class, route, encoding, invalid kind, inline request)")
	rt.Check(t, rt.N(350, 2500), func(t *rapid.T) {
		storage := rapid.SampledFrom([]string{"zstd", "uncompressed"}).Draw(t, "storage")
		s, err := stack.New(stack.Opts{Storage: storage})
		if err != nil {
			t.Fatal(err)
		}
		defer s.Close()
		w := &world{t: t, s: s}
		key := gen.SHA([]byte("c11 action"))
		var current *pb.ActionResult // last accepted upload
		nup := rapid.IntRange(1, 3).Draw(t, "nuploads")
		for ui := 0; ui < nup; ui++ {
			u := upload{via: rapid.SampledFrom([]string{"grpc", "http-proto", "http-json"}).Draw(t, "via")}
			if u.via != "grpc" {
				u.zstd = rapid.Bool().Draw(t, "zstd")
			}
			ar := w.genValid(true)
			invalid := "none"
			if rapid.IntRange(0, 2).Draw(t, "invalid?") == 0 {
				invalid = rapid.SampledFrom(append(invalidKinds, "inline-mismatch", "inline-mismatch", "inline-mismatch", "garbage-body")).Draw(t, "invalidKind")
			}
			verdict := "accept"
			switch invalid {
			case "none":
			case "inline-mismatch":
				// inline bytes that do not hash to the stated digest: rejected over gRPC (C01), passed through over HTTP
				mm := &pb.OutputFile{Path: "mismatch", Digest: &pb.Digest{Hash: goodHash, SizeBytes: 9}, Contents: []byte("123456789")}
				if rapid.IntRange(0, 2).Draw(t, "mismatchDigestPresent") > 0 {
					// the stated digest names a blob the CAS already holds (other bytes,
					// same or another length than the inlined ones)
					x := gen.Expand(4711, rapid.SampledFrom([]int{9, 30}).Draw(t, "presentLen"), "text")
					if err := s.Cache.Put(context.Background(), cache.CAS, gen.SHA(x), int64(len(x)), bytes.NewReader(x)); err != nil {
						t.Fatal(err)
					}
					mm.Digest = &pb.Digest{Hash: gen.SHA(x), SizeBytes: int64(len(x))}
					E.Label("inline-mismatch:stated-digest-present")
				}
				ar.OutputFiles = append(ar.OutputFiles, mm)
				// (over HTTP such a message is passed through unchanged; whether that is
				// an upload to refuse is C01's question, not C11's: not generated there)
				u = upload{via: "grpc"}
				verdict = "reject"
			case "garbage-body":
				if u.via == "grpc" {
					invalid = "none"
				} else {
					verdict = "reject"
				}
			default:
				makeInvalid(t, ar, invalid)
				verdict = "reject"
				if u.via == "http-json" && (strings.HasPrefix(invalid, "nil-") && invalid != "nil-file-digest" && invalid != "nil-tree-digest") {
					// protojson cannot carry a nil list element: not expressible in this encoding
					verdict = "skip"
				}
			}
			if verdict == "skip" {
				continue
			}
			before := []view{w.httpGet(key, false), w.httpGet(key, true)}
			var ok bool
			var info string
			if invalid == "garbage-body" {
				hdr := map[string]string{}
				if u.via == "http-json" {
					hdr["Content-Type"] = "application/json"
				}
				r := cl.HTTPPut(s, "/ac/"+key, hdr, []byte("\xff\xfe definitely { not a message"))
				ok, info = r.Code == 200, fmt.Sprintf("HTTP %d", r.Code)
			} else {
				ok, info = w.doUpload(u, key, ar)
			}
			nkinds := 0
			for _, b := range []bool{len(ar.OutputFiles) > 0, len(ar.OutputDirectories) > 0, len(ar.OutputSymlinks)+len(ar.OutputFileSymlinks)+len(ar.OutputDirectorySymlinks) > 0, ar.StdoutDigest != nil || len(ar.StdoutRaw) > 0, ar.StderrDigest != nil || len(ar.StderrRaw) > 0, ar.ExecutionMetadata != nil} {
				if b {
					nkinds++
				}
			}
			ctxs := fmt.Sprintf("upload#%d via=%s zstd=%v invalid=%s verdict=%s storage=%s -> accepted=%v (%s)", ui, u.via, u.zstd, invalid, verdict, storage, ok, info)
			hasInline := len(ar.StdoutRaw) > 0 || len(ar.StderrRaw) > 0
			for _, f := range ar.OutputFiles {
				if f != nil && len(f.Contents) > 0 {
					hasInline = true
				}
			}
			E.Case(fmt.Sprintf("%d|%s|%v|%s|%v|%d", nkinds, u.via, u.zstd, invalid, hasInline, ui), nkinds >= 3 || invalid != "none" || hasInline,
				"via="+u.via, fmt.Sprintf("zstd=%v", u.zstd), "invalid="+invalid, "verdict="+verdict, fmt.Sprintf("fieldkinds=%d", nkinds), fmt.Sprintf("upload#=%d", ui))
			E.Sample(u.via+"/"+invalid, map[string]any{"via": u.via, "zstd": u.zstd, "invalid": invalid, "verdict": verdict, "field_kinds": nkinds, "accepted": ok, "message": protojsonOrEmpty(ar)})
			switch verdict {
			case "accept":
				if !ok {
					t.Fatalf("valid ActionResult rejected: %s\n%v", ctxs, ar)
				}
				current = ar
			case "reject":
				if ok {
					t.Fatalf("invalid ActionResult accepted: %s", ctxs)
				}
				after := []view{w.httpGet(key, false), w.httpGet(key, true)}
				for i := range before {
					if before[i].hit != after[i].hit || !bytes.Equal(before[i].raw, after[i].raw) {
						t.Fatalf("a rejected upload changed what the key returns (view %d: hit %v -> %v): %s", i, before[i].hit, after[i].hit, ctxs)
					}
				}
			case "dontcare":
				if ok {
					current = ar
				}
			}
			if current == nil {
				if v := w.httpGet(key, false); v.hit {
					t.Fatalf("key is served although no upload was accepted: %s", ctxs)
				}
				continue
			}
			// ---- reads
			pv := w.httpGet(key, false)
			jv := w.httpGet(key, true)
			if !pv.hit || !jv.hit {
				t.Fatalf("accepted ActionResult is not served over HTTP (proto hit=%v json hit=%v): %s", pv.hit, jv.hit, ctxs)
			}
			if !proto.Equal(pv.ar, jv.ar) {
				t.Fatalf("JSON and protobuf views differ: %s\nproto: %v\njson: %v", ctxs, pv.ar, jv.ar)
			}
			if invalid != "inline-mismatch" {
				if err := isValid(pv.ar); err != nil {
					t.Fatalf("stored action result does not validate: %v: %s", err, ctxs)
				}
			}
			sameModuloDocumented(t, current, pv.ar, "HTTP GET", ctxs)
			if invalid == "inline-mismatch" {
				continue // dependency check over gRPC would (rightly) look for the bogus digest
			}
			inO, inE := rapid.Bool().Draw(t, "inlineStdout"), rapid.Bool().Draw(t, "inlineStderr")
			var inF []string
			for _, f := range current.OutputFiles {
				if rapid.Bool().Draw(t, "inlineThisFile") {
					inF = append(inF, f.Path)
				}
			}
			ctx, cancel := cl.Ctx()
			got, err := s.AC.GetActionResult(ctx, &pb.GetActionResultRequest{ActionDigest: &pb.Digest{Hash: key, SizeBytes: 42}, InlineStdout: inO, InlineStderr: inE, InlineOutputFiles: inF})
			cancel()
			if err != nil {
				if status.Code(err) == codes.ResourceExhausted {
					t.Fatalf("GetActionResult response exceeded the message size limit (inlining budget not honoured): %v: %s", err, ctxs)
				}
				t.Fatalf("GetActionResult of an accepted result failed: %v: %s", err, ctxs)
			}
			sameModuloDocumented(t, current, got, "gRPC GetActionResult", ctxs)
			// inlining: asked & within budget => bytes; not asked => no bytes; total <= budget
			want := map[string]bool{}
			for _, p := range inF {
				want[p] = true
			}
			var total, asked int64
			type fld struct {
				name  string
				raw   []byte
				d     *pb.Digest
				asked bool
			}
			cg := canon(got)
			flds := []fld{{"stdout", got.StdoutRaw, cg.StdoutDigest, inO}, {"stderr", got.StderrRaw, cg.StderrDigest, inE}}
			for i, f := range got.OutputFiles {
				flds = append(flds, fld{f.Path, f.Contents, cg.OutputFiles[i].Digest, want[f.Path]})
			}
			for _, f := range flds {
				total += int64(len(f.raw))
				if f.asked && f.d != nil {
					asked += f.d.SizeBytes
				}
			}
			if total > maxInline {
				t.Fatalf("gRPC GetActionResult inlined %d bytes, budget is %d: %s", total, maxInline, ctxs)
			}
			for _, f := range flds {
				if !f.asked && len(f.raw) > 0 {
					t.Fatalf("%s inlined although not requested: %s", f.name, ctxs)
				}
				if f.asked && asked <= maxInline && f.d != nil && f.d.SizeBytes > 0 && len(f.raw) == 0 {
					t.Fatalf("%s not inlined although requested and the total requested (%d) is within the budget: %s", f.name, asked, ctxs)
				}
				if len(f.raw) == 0 && f.d != nil && f.d.SizeBytes > 0 {
					// digest only: the CAS must hold the bytes under that digest
					if p, _ := cl.Present(s, f.d.Hash, f.d.SizeBytes); !p {
						t.Fatalf("%s returned by digest %v but the CAS does not hold it: %s", f.name, f.d, ctxs)
					}
				}
			}
			if total > 0 {
				E.Label("grpc-read:inlined")
			}
			if asked > maxInline {
				E.Label("grpc-read:over-budget-request")
			}
		}
		if s.Panics() > 0 {
			t.Fatalf("panic: %v", s.PanicLog)
		}
	})
}

func protojsonOrEmpty(ar *pb.ActionResult) string {
	defer func() { recover() }()
	c := proto.Clone(ar).(*pb.ActionResult)
	c.StdoutRaw, c.StderrRaw = trunc(c.StdoutRaw), trunc(c.StderrRaw)
	for _, f := range c.OutputFiles {
		if f != nil {
			f.Contents = trunc(f.Contents)
		}
	}
	b, err := protojson.Marshal(c)
	if err != nil {
		return "(not representable)"
	}
	if len(b) > 1500 {
		b = b[:1500]
	}
	return string(b)
}

func trunc(b []byte) []byte {
	if len(b) > 16 {
		return b[:16]
	}
	return b
}
