#!/bin/bash
# Generates harness/go.mod and go.sum from /repo's (full require block + rapid),
# entirely from files on disk. A pruned require block makes -mod=mod try the network.
set -euo pipefail
cd "$(dirname "$0")"
REPO=${VERIF_REPO:-/repo}
{
  echo "module verif/harness"
  echo
  grep -v '^module ' "$REPO/go.mod"
  echo
  echo "require github.com/buchgr/bazel-remote/v2 v2.0.0"
  echo "require pgregory.net/rapid v1.3.0"
  echo
  echo "replace github.com/buchgr/bazel-remote/v2 => $REPO"
} > go.mod.new
if ! cmp -s go.mod.new go.mod 2>/dev/null; then mv go.mod.new go.mod; else rm go.mod.new; fi
cp "$REPO/go.sum" go.sum.new
grep -q '^pgregory.net/rapid v1.3.0 ' go.sum.new || cat >> go.sum.new <<'SUM'
pgregory.net/rapid v1.3.0 h1:vBvO0VSqti75J1jjYqpgPNBLKMd1+gxa9fYo7vk/Exc=
pgregory.net/rapid v1.3.0/go.mod h1:dPlE4OBBxgXPqkP79flB6sJL1dx5azpI7HQ9MY9Z7uk=
SUM
if ! cmp -s go.sum.new go.sum 2>/dev/null; then mv go.sum.new go.sum; else rm go.sum.new; fi
