#!/bin/bash
# Generates harness/go.mod and go.sum from /repo's (full require block + rapid),
# entirely from files on disk. A pruned require block makes -mod=mod try the network.
set -euo pipefail
cd "$(dirname "$0")"
REPO=${VERIF_REPO:-/repo}
# VERIF_GOMOD_DIR: write go.mod/go.sum there instead of into the harness
# directory (the driver uses a private pair per run, passed with -modfile, so
# that concurrent runs against different trees cannot mix them up).
OUT=${VERIF_GOMOD_DIR:-.}
mkdir -p "$OUT"
{
  echo "module verif/harness"
  echo
  grep -v '^module ' "$REPO/go.mod"
  echo
  echo "require github.com/buchgr/bazel-remote/v2 v2.0.0"
  echo "require pgregory.net/rapid v1.3.0"
  echo
  echo "replace github.com/buchgr/bazel-remote/v2 => $REPO"
} > "$OUT/go.mod.new"
if ! cmp -s "$OUT/go.mod.new" "$OUT/go.mod" 2>/dev/null; then mv "$OUT/go.mod.new" "$OUT/go.mod"; else rm "$OUT/go.mod.new"; fi
cp "$REPO/go.sum" "$OUT/go.sum.new"
grep -q '^pgregory.net/rapid v1.3.0 ' "$OUT/go.sum.new" || cat >> "$OUT/go.sum.new" <<'SUM'
pgregory.net/rapid v1.3.0 h1:vBvO0VSqti75J1jjYqpgPNBLKMd1+gxa9fYo7vk/Exc=
pgregory.net/rapid v1.3.0/go.mod h1:dPlE4OBBxgXPqkP79flB6sJL1dx5azpI7HQ9MY9Z7uk=
SUM
if ! cmp -s "$OUT/go.sum.new" "$OUT/go.sum" 2>/dev/null; then mv "$OUT/go.sum.new" "$OUT/go.sum"; else rm "$OUT/go.sum.new"; fi
