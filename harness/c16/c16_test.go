package c16

import (
	"bytes"
	"context"
	"fmt"
	"strings"
	"testing"
	"time"

	"github.com/buchgr/bazel-remote/v2/cache"
	pb "github.com/buchgr/bazel-remote/v2/genproto/build/bazel/remote/execution/v2"
	"google.golang.org/genproto/googleapis/bytestream"
	"google.golang.org/grpc/codes"
	"google.golang.org/grpc/status"
	"pgregory.net/rapid"

	"verif/harness/internal/casfmt"
	"verif/harness/internal/cl"
	"verif/harness/internal/fproxy"
	"verif/harness/internal/ev"
	"verif/harness/internal/gen"
	"verif/harness/internal/rt"
	"verif/harness/internal/stack"
)

func TestMain(m *testing.M) { rt.Main(m, "C16") }

var E = ev.Get("C16")

// REAPI: instance names may have several segments but no segment may be one
// of the reserved keywords.
var instances = []string{"", "", "foo", "a/b/c", "team-uploads", "my.uploads/x", "blobs-old/uploads2", "x/compressed-blobs-y", "ünï/cödé", "ac/cas", "main instance", "0"}
var uuids = []string{"3e3cbae8-8b5e-4b8a-9a1f-000000000001", "x", "123", "not-a-uuid", "U"}
var metas = []string{"", "", "/meta", "/a/b/c", "/blobs/zzz"}

type wmsg = cl.WriteMsg

func query(s *stack.Stack, name string) (*bytestream.QueryWriteStatusResponse, error) {
	ctx, cancel := cl.Ctx()
	defer cancel()
	return s.BS.QueryWriteStatus(ctx, &bytestream.QueryWriteStatusRequest{ResourceName: name})
}

// sendFirstOnly sends only the first message and waits for the response
// without half-closing: the early return must not need the rest.
func sendFirstOnly(s *stack.Stack, m wmsg) (int64, codes.Code, error, bool) {
	ctx, cancel := context.WithTimeout(context.Background(), 60*time.Second)
	defer cancel()
	st, err := s.BS.Write(ctx)
	if err != nil {
		return 0, status.Code(err), err, false
	}
	if err := st.Send(&bytestream.WriteRequest{ResourceName: m.Name, WriteOffset: m.Offset, Data: m.Data, FinishWrite: m.Finish}); err != nil {
		_, err2 := st.CloseAndRecv()
		return 0, status.Code(err2), err2, false
	}
	var resp bytestream.WriteResponse
	done := make(chan error, 1)
	go func() { done <- st.RecvMsg(&resp) }()
	select {
	case err = <-done:
	case <-time.After(8 * time.Second):
		// Look at the server side while the call is still open (after the
		// client gives up the handler is cancelled and leaves).
		waiting := len(stack.GoroutinesWith("server.(*grpcServer).Write")) > 0
		cancel()
		<-done
		return 0, codes.DeadlineExceeded, context.DeadlineExceeded, waiting
	}
	if err != nil {
		return 0, status.Code(err), err, false
	}
	return resp.CommittedSize, codes.OK, nil, false
}

func TestC16Write(t *testing.T) {
	E.SetRule("rapid draws blob × storage × {identity, zstd} upload × chunking (random cuts, empty messages, 1-byte messages) × finish_write placement (last / absent / early) × resource name (REAPI-conformant instance prefix incl. segments that contain but are not reserved words, arbitrary uuid segment, optional trailing metadata) × later-message name {empty, same, different} × first write_offset {0, !=0} × byte count {exact, fewer, more} × unparsable names × blob present beforehand or not (then also: only the first message is sent and never half-closed); QueryWriteStatus before and after. Oracle = the statement as a decision table on status / committed_size / presence. non-trivial: >=3 messages, or a protocol fault, or a pre-existing blob; distinct by (encoding, fault, present, chunk class, name shape, finish)")
	rt.Check(t, rt.N(700, 5000), func(t *rapid.T) {
		storage := rapid.SampledFrom([]string{"zstd", "uncompressed"}).Draw(t, "storage")
		// one case in three runs in front of a backend; "present" then also means
		// "held by the backend only" (with or without the backend knowing sizes)
		var px *fproxy.Proxy
		o := stack.Opts{Storage: storage}
		if rapid.IntRange(0, 2).Draw(t, "withBackend") == 0 {
			px = fproxy.New()
			px.ContainsSizeUnknown = rapid.Bool().Draw(t, "backendSizeUnknown")
			o.Proxy = px
		}
		s, err := stack.New(o)
		if err != nil {
			t.Fatal(err)
		}
		defer s.Close()
		b := gen.DrawBlob(t, "blob", 0, 2*gen.MiB+5000)
		if b.Size > 70000 && rapid.IntRange(0, 2).Draw(t, "shrinkBig") > 0 {
			b = gen.MakeBlob(7, int(b.Size%60000)+1, b.Content, "4k-64k")
		}
		z := rapid.Bool().Draw(t, "zstd")
		present := rapid.IntRange(0, 3).Draw(t, "present") == 0 || b.Size == 0
		where := "-"
		if present && b.Size > 0 {
			where = "local"
			if px != nil && rapid.Bool().Draw(t, "backendOnly") {
				where = "backend-only"
				st := b.Data
				if storage == "zstd" {
					st = casfmt.Encode(b.Data, gen.Chunk, func(x []byte) []byte { return gen.ZstdGo(x, 1, false) })
				}
				px.Set(cache.CAS, b.Hash, fproxy.Obj{Stored: st, Logical: b.Size})
				if px.ContainsSizeUnknown {
					where = "backend-only-size-unknown"
				}
			} else if err := s.Cache.Put(context.Background(), cache.CAS, b.Hash, b.Size, bytes.NewReader(b.Data)); err != nil {
				t.Fatal(err)
			}
			E.Label("present-where=" + where)
		}
		inst := rapid.SampledFrom(instances).Draw(t, "instance")
		uuid := rapid.SampledFrom(uuids).Draw(t, "uuid")
		meta := rapid.SampledFrom(metas).Draw(t, "meta")
		name := cl.WriteName(inst, uuid, b.Hash, b.Size, z, meta)

		fault := rapid.SampledFrom([]string{"none", "none", "none", "offset", "rename", "fewer", "more", "badname", "early-finish"}).Draw(t, "fault")
		payload := b.Data
		if z {
			payload = gen.ZstdGo(b.Data, 1, rapid.Bool().Draw(t, "crc"))
			if rapid.Bool().Draw(t, "libzstd") {
				payload = gen.ZstdC(b.Data, 1)
			}
		}
		T := payload
		switch fault {
		case "fewer":
			if len(T) == 0 {
				fault = "none"
			} else {
				T = T[:rapid.IntRange(0, len(T)-1).Draw(t, "sendOnly")]
			}
		case "more":
			if z {
				T = append(append([]byte{}, T...), gen.ZstdGo([]byte("more"), 1, false)...)
			} else {
				T = append(append([]byte{}, T...), byte('x'))
			}
		case "badname":
			bad := rapid.SampledFrom([]string{
				fmt.Sprintf("uploads/%s/blobs/%s", uuid, b.Hash),                            // no size
				fmt.Sprintf("uploads/%s/blobs/%s/abc", uuid, b.Hash),                        // size not a number
				fmt.Sprintf("uploads/%s/blobs/%s/-5", uuid, b.Hash),                         // negative
				fmt.Sprintf("%s/blobs/%s/%d", uuid, b.Hash, b.Size),                         // no "uploads"
				fmt.Sprintf("uploads/%s/compressed-blobs/gzip/%s/%d", uuid, b.Hash, b.Size), // unsupported compressor
				fmt.Sprintf("uploads/%s/compressed-blobs/%s/%d", uuid, b.Hash, b.Size),      // compressor missing
				fmt.Sprintf("uploads/%s/blobs/%s/%d", uuid, b.Hash[:40], b.Size),            // short hash
				fmt.Sprintf("uploads/%s/blobs/%s/%d", uuid, strings.ToUpper(b.Hash), b.Size),
				fmt.Sprintf("uploads/%s/cas/%s/%d", uuid, b.Hash, b.Size),
				"",
			}).Draw(t, "badName")
			if bad == strings.ToLower(bad) && strings.Contains(bad, "/blobs/"+b.Hash+"/"+fmt.Sprint(b.Size)) && strings.HasPrefix(bad, "uploads/") {
				fault = "none" // (upper-casing a hash without letters changes nothing)
			} else {
				name = bad
			}
		}
		// chunking
		var cuts []int
		switch rapid.SampledFrom([]string{"one", "few", "bytes", "many"}).Draw(t, "chunking") {
		case "few":
			for i := rapid.IntRange(1, 4).Draw(t, "ncuts"); i > 0 && len(T) > 0; i-- {
				cuts = append(cuts, rapid.IntRange(0, len(T)).Draw(t, "cut"))
			}
		case "bytes":
			for i := 1; i < len(T) && i < 12; i++ {
				cuts = append(cuts, i)
			}
		case "many":
			for i := rapid.IntRange(5, 20).Draw(t, "ncuts"); i > 0 && len(T) > 0; i-- {
				cuts = append(cuts, rapid.IntRange(0, len(T)).Draw(t, "cut"))
			}
		}
		boundary := -1
		if fault == "more" && rapid.Bool().Draw(t, "cutAtDeclaredEnd") {
			// a message boundary exactly where the declared bytes end
			boundary = len(payload)
			cuts = append(cuts, boundary)
		}
		sortInts(cuts)
		finish := rapid.SampledFrom([]string{"last", "last", "last", "absent"}).Draw(t, "finish")
		msgs := cl.Chunked(name, T, cuts, finish == "last")
		if fault == "early-finish" {
			if len(msgs) < 2 || len(msgs[len(msgs)-1].Data) == 0 {
				fault = "none"
			} else {
				k := rapid.IntRange(0, len(msgs)-2).Draw(t, "finishAt")
				msgs[k].Finish = true
				// bytes after the early finish_write are never part of the upload: fewer than declared
				sent := 0
				for i := 0; i <= k; i++ {
					sent += len(msgs[i].Data)
				}
				if sent == len(T) {
					fault = "none"
				}
			}
		}
		switch rapid.SampledFrom([]string{"empty", "empty", "same"}).Draw(t, "laterNames") {
		case "same":
			for i := range msgs {
				msgs[i].Name = name
			}
		}
		if fault == "rename" {
			if len(msgs) < 2 {
				msgs = append(msgs[:len(msgs):len(msgs)], wmsg{Offset: int64(len(T))})
				msgs[0].Finish, msgs[1].Finish = false, finish == "last"
			}
			k := rapid.IntRange(1, len(msgs)-1).Draw(t, "renameAt")
			msgs[k].Name = cl.WriteName(inst, uuid, gen.SHA([]byte("other")), b.Size, z, meta)
		}
		if fault == "offset" {
			off := int64(rapid.SampledFrom([]int{1, 5, 4096, -1}).Draw(t, "firstOffset"))
			for i := range msgs {
				msgs[i].Offset += off
			}
		}
		// occasionally sprinkle empty messages (allowed by the protocol)
		if rapid.IntRange(0, 3).Draw(t, "emptyMsgs") == 0 && fault != "rename" {
			k := rapid.IntRange(0, len(msgs)).Draw(t, "emptyAt")
			if boundary >= 0 && rapid.Bool().Draw(t, "emptyAtDeclaredEnd") {
				for i := range msgs {
					if msgs[i].Offset == int64(boundary) && len(msgs[i].Data) > 0 {
						k = i
						E.Label("more:empty-message-at-declared-end")
					}
				}
			}
			var off int64
			if k < len(msgs) {
				off = msgs[k].Offset
			} else if len(msgs) > 0 {
				off = msgs[len(msgs)-1].Offset + int64(len(msgs[len(msgs)-1].Data))
			}
			em := wmsg{Offset: off}
			if k == 0 {
				em.Name = name
			}
			ms := append([]wmsg{}, msgs[:k]...)
			ms = append(ms, em)
			ms = append(ms, msgs[k:]...)
			if k == len(msgs) && finish == "last" && fault != "early-finish" {
				ms[len(ms)-2].Finish = false
				ms[len(ms)-1].Finish = true
			}
			if k == 0 && rapid.Bool().Draw(t, "laterNameless") {
				ms[1].Name = ""
			}
			msgs = ms
		}

		nameShape := fmt.Sprintf("inst=%q,meta=%q", inst, meta)
		chunkCls := "1"
		if len(msgs) >= 3 {
			chunkCls = ">=3"
		} else if len(msgs) == 2 {
			chunkCls = "2"
		}
		nontrivial := len(msgs) >= 3 || fault != "none" || present
		E.Case(fmt.Sprintf("%v|%s|%v|%s|%s|%s", z, fault, present, chunkCls, nameShape, finish), nontrivial,
			fmt.Sprintf("zstd=%v", z), "fault="+fault, fmt.Sprintf("present=%v", present), "msgs="+chunkCls, "finish="+finish, "storage="+storage, "size="+b.SizeCls)
		E.Sample(fault+fmt.Sprint(present), map[string]any{"name": name, "zstd": z, "fault": fault, "present": present, "messages": len(msgs), "payload_bytes": len(T), "blob_size": b.Size, "finish": finish})
		ctxs := fmt.Sprintf("name=%q zstd=%v fault=%s present=%v(%s) msgs=%d payload=%d blob=%d finish=%s storage=%s", name, z, fault, present, where, len(msgs), len(T), b.Size, finish, storage)

		goodName := cl.WriteName(inst, uuid, b.Hash, b.Size, z, meta)
		// QueryWriteStatus before
		if q, err := query(s, goodName); err != nil {
			t.Fatalf("QueryWriteStatus(%q) failed: %v", goodName, err)
		} else if present && (!q.Complete || q.CommittedSize != b.Size) || !present && (q.Complete || q.CommittedSize != 0) {
			t.Fatalf("QueryWriteStatus before upload = (%d,%v), blob present=%v size=%d: %s", q.CommittedSize, q.Complete, present, b.Size, ctxs)
		}

		if present && fault != "badname" && rapid.Bool().Draw(t, "firstOnly") {
			first := msgs[0]
			if fault == "offset" || fault == "rename" {
				first = wmsg{Name: goodName, Data: first.Data}
			}
			first.Finish = false
			committed, code, err, waiting := sendFirstOnly(s, first)
			E.Label("present:first-message-only")
			if code == codes.DeadlineExceeded {
				if waiting {
					t.Fatalf("upload of an already-present blob did not return early: the handler still waits for the rest of the stream: %s", ctxs)
				}
				fmt.Println("VERIF-INFRA: early-return wait timed out without the handler being parked")
				t.Fatalf("VERIF-INFRA")
			}
			if code != codes.OK {
				t.Fatalf("upload of an already-present blob failed (%v) instead of returning early: %s", err, ctxs)
			}
			wantC := b.Size
			if z {
				wantC = -1
			}
			if committed != wantC {
				t.Fatalf("early return for a present blob reported committed_size %d, want %d: %s", committed, wantC, ctxs)
			}
		} else {
			r := cl.BSWrite(s, msgs, false)
			ctxs += fmt.Sprintf(" -> code=%v committed=%d err=%v", r.Code, r.Committed, r.Err)
			switch {
			case present && fault == "badname":
				if r.Code == codes.OK {
					t.Fatalf("unparsable resource name accepted: %s", ctxs)
				}
			case present:
				// conformant or not, an existing blob may be acknowledged early; if it is, the size must be right
				if r.Code == codes.OK {
					wantC := b.Size
					if z {
						wantC = -1
					}
					// a complete conformant upload may also be processed normally
					alt := int64(len(T))
					if !z {
						alt = b.Size
					}
					if r.Committed != wantC && !(fault == "none" && r.Committed == alt) {
						t.Fatalf("present blob: committed_size %d, want %d: %s", r.Committed, wantC, ctxs)
					}
				} else if fault == "none" && finish == "last" {
					t.Fatalf("conformant upload of an already-present blob failed: %s", ctxs)
				}
			case fault == "none" && finish == "last":
				if r.Code != codes.OK {
					t.Fatalf("conformant upload failed: %s", ctxs)
				}
				wantC := int64(len(T))
				if !z {
					wantC = b.Size
				}
				if r.Committed != wantC {
					t.Fatalf("committed_size %d, want %d (payload bytes sent): %s", r.Committed, wantC, ctxs)
				}
			case fault == "none": // finish_write absent, everything else conformant: statement silent
				if r.Code == codes.OK {
					wantC := int64(len(T))
					if !z {
						wantC = b.Size
					}
					if r.Committed != wantC {
						t.Fatalf("committed_size %d, want %d: %s", r.Committed, wantC, ctxs)
					}
					E.Label("nofinish:accepted")
				} else {
					E.Label("nofinish:rejected")
				}
			default:
				if r.Code == codes.OK {
					t.Fatalf("protocol violation accepted: %s", ctxs)
				}
			}
			// presence afterwards
			pres, err := cl.Present(s, b.Hash, b.Size)
			if err != nil {
				t.Fatalf("FindMissingBlobs: %v", err)
			}
			if r.Code == codes.OK && !pres {
				t.Fatalf("successful Write but the blob is missing afterwards: %s", ctxs)
			}
			if !present && r.Code != codes.OK && pres && b.Size > 0 {
				t.Fatalf("failed Write stored the blob: %s", ctxs)
			}
			if q, err := query(s, goodName); err != nil {
				t.Fatalf("QueryWriteStatus after: %v", err)
			} else if pres != q.Complete || pres && q.CommittedSize != b.Size || !pres && q.CommittedSize != 0 {
				t.Fatalf("QueryWriteStatus after upload = (%d,%v) but present=%v size=%d: %s", q.CommittedSize, q.Complete, pres, b.Size, ctxs)
			}
			if r.Code == codes.OK && b.Size > 0 && b.Size < 100000 {
				got, code, _ := cl.BSRead(s, cl.ReadName("", b.Hash, b.Size, false), 0, 0)
				if code != codes.OK || !bytes.Equal(got, b.Data) {
					t.Fatalf("read-back after successful Write differs: %s", ctxs)
				}
			}
		}
		if s.Panics() > 0 {
			t.Fatalf("handler panic: %v: %s", s.PanicLog, ctxs)
		}
	})
}

// TestC16Names: QueryWriteStatus understands any REAPI-conformant name.
func TestC16Names(t *testing.T) {
	rt.Check(t, rt.N(300, 2000), func(t *rapid.T) {
		s, err := stack.New(stack.Opts{})
		if err != nil {
			t.Fatal(err)
		}
		defer s.Close()
		b := gen.DrawSmallBlob(t, "blob", 1, 300)
		present := rapid.Bool().Draw(t, "present")
		if present {
			if err := s.Cache.Put(context.Background(), cache.CAS, b.Hash, b.Size, bytes.NewReader(b.Data)); err != nil {
				t.Fatal(err)
			}
		}
		// instance built from drawn conformant segments
		nseg := rapid.IntRange(0, 4).Draw(t, "nseg")
		var segs []string
		for i := 0; i < nseg; i++ {
			seg := rapid.StringMatching(`[a-zA-Z0-9._~ -]{1,12}`).Draw(t, "seg")
			if rapid.IntRange(0, 3).Draw(t, "tricky") == 0 {
				seg = rapid.SampledFrom([]string{"xuploads", "uploads-x", "blobsx", "my-blobs", "compressed-blobs2", "zstd", "actions2", "Uploads", "BLOBS"}).Draw(t, "trickySeg")
			}
			switch seg {
			case "blobs", "uploads", "actions", "actionResults", "operations", "capabilities", "compressed-blobs":
				seg += "_"
			}
			segs = append(segs, seg)
		}
		inst := strings.Join(segs, "/")
		z := rapid.Bool().Draw(t, "zstd")
		meta := rapid.SampledFrom(metas).Draw(t, "meta")
		name := cl.WriteName(inst, rapid.SampledFrom(uuids).Draw(t, "uuid"), b.Hash, b.Size, z, meta)
		E.Case(fmt.Sprintf("names|%d|%v|%v|%s", nseg, z, present, meta), nseg > 0 || meta != "", "names", fmt.Sprintf("nseg=%d", nseg))
		q, err := query(s, name)
		if err != nil {
			t.Fatalf("QueryWriteStatus(%q): %v", name, err)
		}
		if q.Complete != present || present && q.CommittedSize != b.Size || !present && q.CommittedSize != 0 {
			t.Fatalf("QueryWriteStatus(%q) = (%d,%v), present=%v size=%d", name, q.CommittedSize, q.Complete, present, b.Size)
		}
		if !present {
			payload := b.Data
			if z {
				payload = gen.ZstdGo(b.Data, 1, false)
			}
			r := cl.BSWrite(s, cl.Chunked(name, payload, nil, true), false)
			if r.Code != codes.OK || r.Committed != int64(len(payload)) {
				t.Fatalf("Write(%q): code=%v committed=%d want %d: %v", name, r.Code, r.Committed, len(payload), r.Err)
			}
			if p, _ := cl.Present(s, b.Hash, b.Size); !p {
				t.Fatalf("Write(%q) ok but blob missing", name)
			}
		}
	})
}

func sortInts(a []int) {
	for i := 1; i < len(a); i++ {
		for j := i; j > 0 && a[j] < a[j-1]; j-- {
			a[j], a[j-1] = a[j-1], a[j]
		}
	}
}

var _ = pb.Compressor_ZSTD
