package c02

import (
	"bytes"
	"context"
	"fmt"
	"io"
	"strconv"
	"testing"

	"github.com/buchgr/bazel-remote/v2/cache"
	pb "github.com/buchgr/bazel-remote/v2/genproto/build/bazel/remote/execution/v2"
	"google.golang.org/grpc/codes"
	"google.golang.org/protobuf/proto"
	"pgregory.net/rapid"

	"verif/harness/internal/casfmt"
	"verif/harness/internal/cl"
	"verif/harness/internal/ev"
	"verif/harness/internal/fproxy"
	"verif/harness/internal/gen"
	"verif/harness/internal/rt"
	"verif/harness/internal/stack"
)

func TestMain(m *testing.M) { rt.Main(m, "C02") }

var E = ev.Get("C02")

var storages = []string{"zstd", "uncompressed"}
var codecs = []string{"go", "cgo"}

type cfg struct{ Storage, Codec string }

func drawCfg(t *rapid.T, label string) cfg {
	return cfg{rapid.SampledFrom(storages).Draw(t, label+".storage"), rapid.SampledFrom(codecs).Draw(t, label+".codec")}
}

func offsetClass(off, n int64) string {
	c := int64(gen.Chunk)
	switch {
	case off == 0:
		return "0"
	case off == n:
		return "n"
	case off == n-1:
		return "n-1"
	case off%c == 0:
		return "k*chunk"
	case off%c == 1 || off%c == c-1:
		return "chunk±1"
	case off < c:
		return "in-chunk0"
	default:
		return "in-chunkK"
	}
}

func drawOffset(t *rapid.T, n int64) int64 {
	c := int64(gen.Chunk)
	cands := []int64{0, 0, 1, n - 1, n, n / 2}
	for k := int64(1); k*c <= n+1; k++ {
		cands = append(cands, k*c-1, k*c, k*c+1)
	}
	var ok []int64
	for _, x := range cands {
		if x >= 0 && x <= n {
			ok = append(ok, x)
		}
	}
	i := rapid.IntRange(0, len(ok)).Draw(t, "offsetPick")
	if i == len(ok) {
		return rapid.Int64Range(0, n).Draw(t, "offset")
	}
	return ok[i]
}

func drawLimit(t *rapid.T, rest int64) int64 {
	cands := []int64{0, 0, 1, rest - 1, rest - 1, rest / 2, rest / 2, rest, rest + 1, 1 << 40, -2}
	var ok []int64
	for _, x := range cands {
		if x >= 0 || (x == -2 && rest > 2) {
			ok = append(ok, x)
		}
	}
	l := rapid.SampledFrom(ok).Draw(t, "limit")
	if l == -2 {
		l = rapid.Int64Range(1, rest-1).Draw(t, "limitVal")
	}
	return l
}

var paths = []string{"http", "http-zstd", "http-head", "batch", "batch-zstd", "bs", "bs", "bs-zstd", "bs-zstd", "disk", "disk-unknown", "diskz", "diskz-unknown"}

func diskRead(s *stack.Stack, z bool, hash string, size, off int64) ([]byte, int64, error, error) {
	var rc io.ReadCloser
	var fs int64
	var err error
	if z {
		rc, fs, err = s.Cache.GetZstd(context.Background(), hash, size, off)
	} else {
		rc, fs, err = s.Cache.Get(context.Background(), cache.CAS, hash, size, off)
	}
	if err != nil || rc == nil {
		if rc != nil {
			rc.Close()
		}
		return nil, fs, err, nil
	}
	b, rerr := io.ReadAll(rc)
	rc.Close()
	return b, fs, nil, rerr
}

// TestC02Read: write under one (storage, codec), reopen under another, read
// through every path at chunk-edge offsets; round-trip against the original.
func TestC02Read(t *testing.T) {
	E.SetRule("rapid draws blob(size class × content) × writer(storage,codec) × reader(storage,codec) × 4 reads of (path, offset at 0/1/chunk±1/n-1/n/random, limit at 0/1/rest±1/huge); oracle = original bytes (zstd responses decoded by klauspost AND libzstd). non-trivial: offset with non-zero remainder in a chunk, or >=2 chunks, or writer cfg != reader cfg, or zstd-encoded response; distinct by (path, size class, offset class, writer cfg, reader cfg, limit class)")
	E.Assume("zstd streams are judged by two decoders (klauspost/compress and libzstd via gozstd); 'any standard decoder' means both")
	rt.Check(t, rt.N(220, 1500), func(t *rapid.T) {
		w := drawCfg(t, "w")
		r := drawCfg(t, "r")
		b := gen.DrawBlob(t, "blob", 1, 3*gen.MiB+5000)
		s1, err := stack.New(stack.Opts{Storage: w.Storage, Zstd: w.Codec, NoServers: true})
		if err != nil {
			t.Fatalf("disk.New(writer): %v", err)
		}
		defer s1.Close()
		if err := s1.Cache.Put(context.Background(), cache.CAS, b.Hash, b.Size, bytes.NewReader(b.Data)); err != nil {
			t.Fatalf("Put of a pristine blob failed: %v", err)
		}
		// One case in four: the reader starts on an EMPTY directory in front of a
		// backend that holds the blob (in the reader's storage format, as its own
		// write-through would have left it): the first read of the case is then
		// served while the blob is being fetched, the later ones from the local copy.
		viaBackend := rapid.IntRange(0, 3).Draw(t, "viaBackend") == 0
		ro := stack.Opts{Storage: r.Storage, Zstd: r.Codec, Dir: s1.Dir}
		if viaBackend {
			px := fproxy.New()
			st := b.Data
			if r.Storage == "zstd" {
				st = casfmt.Encode(b.Data, gen.Chunk, func(x []byte) []byte { return gen.ZstdGo(x, 1, false) })
			}
			px.Set(cache.CAS, b.Hash, fproxy.Obj{Stored: st, Logical: b.Size})
			px.ContainsSizeUnknown = rapid.Bool().Draw(t, "backendSizeUnknown")
			ro = stack.Opts{Storage: r.Storage, Zstd: r.Codec, Proxy: px}
			E.Label("source=backend-only")
		}
		s, err := stack.New(ro)
		if err != nil {
			t.Fatalf("disk.New(reader) on a directory written by %v: %v", w, err)
		}
		defer s.Close()
		n := b.Size
		nreads := 4
		if n > 64*gen.KiB {
			nreads = 7 // large blobs are rarer and costlier to set up: read them more often
		}
		for i := 0; i < nreads; i++ {
			path := rapid.SampledFrom(paths).Draw(t, "path")
			if n > 64*gen.KiB && i == 0 {
				path = "bs" // every large blob gets at least one ranged, limited identity read
			}
			if viaBackend && i == 0 {
				// the read that triggers the fetch: prefer the ranged paths
				path = rapid.SampledFrom([]string{"bs", "bs-zstd", "bs-zstd", "diskz", "disk", "http", "http-zstd", "batch", "batch-zstd"}).Draw(t, "fetchPath")
			}
			var off, limit int64
			hasOff := path == "bs" || path == "bs-zstd" || path == "disk" || path == "disk-unknown" || path == "diskz" || path == "diskz-unknown"
			if hasOff {
				off = drawOffset(t, n)
			}
			if path == "bs" {
				limit = drawLimit(t, n-off)
			}
			inst := ""
			if path == "bs" || path == "bs-zstd" {
				inst = rapid.SampledFrom([]string{"", "inst", "a/b/c", "ac", "cas/x"}).Draw(t, "instance")
			}
			limCls := "0"
			if limit > 0 {
				switch {
				case limit < n-off:
					limCls = "<rest"
				case limit == n-off:
					limCls = "=rest"
				default:
					limCls = ">rest"
				}
			}
			zresp := path == "http-zstd" || path == "batch-zstd" || path == "bs-zstd" || path == "diskz" || path == "diskz-unknown"
			nontrivial := (off%int64(gen.Chunk) != 0) || n > int64(gen.Chunk) || w != r || zresp
			fp := fmt.Sprintf("%s|%s|%s|%v|%v|%s", path, b.SizeCls, offsetClass(off, n), w, r, limCls)
			E.Case(fp, nontrivial, "path="+path, "size="+b.SizeCls, "off="+offsetClass(off, n), "w="+w.Storage+"/"+w.Codec, "r="+r.Storage+"/"+r.Codec)
			E.Sample(path+"/"+offsetClass(off, n), map[string]any{"path": path, "size": n, "content": b.Content, "offset": off, "limit": limit, "writer": w, "reader": r, "instance": inst})
			want := b.Data[off:]
			ctxs := fmt.Sprintf("path=%s n=%d off=%d limit=%d writer=%v reader=%v", path, n, off, limit, w, r)

			switch path {
			case "http", "http-zstd":
				hdr := map[string]string{}
				if path == "http-zstd" {
					hdr["Accept-Encoding"] = "zstd"
				}
				resp := cl.HTTPGet(s, "/cas/"+b.Hash, hdr)
				if resp.Err != nil || resp.Code != 200 {
					t.Fatalf("%s: GET of a present blob failed: code=%d err=%v", ctxs, resp.Code, resp.Err)
				}
				got := resp.Body
				if resp.Header.Get("Content-Encoding") == "zstd" {
					if path == "http" {
						t.Fatalf("%s: zstd body without Accept-Encoding", ctxs)
					}
					got, err = gen.DecodeBoth(resp.Body)
					if err != nil {
						t.Fatalf("%s: %v", ctxs, err)
					}
				} else if cls := resp.Header.Get("Content-Length"); cls != "" {
					if v, _ := strconv.ParseInt(cls, 10, 64); v != n {
						t.Fatalf("%s: Content-Length %s, want %d", ctxs, cls, n)
					}
				}
				if !bytes.Equal(got, b.Data) {
					t.Fatalf("%s: body differs (got %d bytes)", ctxs, len(got))
				}
			case "http-head":
				resp := cl.HTTPHead(s, "/cas/"+b.Hash)
				if resp.Code != 200 || resp.Header.Get("Content-Length") != strconv.FormatInt(n, 10) {
					t.Fatalf("%s: HEAD code=%d Content-Length=%q", ctxs, resp.Code, resp.Header.Get("Content-Length"))
				}
			case "batch", "batch-zstd":
				resp, err := cl.BatchRead(s, []*pb.Digest{{Hash: b.Hash, SizeBytes: n}}, path == "batch-zstd")
				if err != nil || len(resp.Responses) != 1 {
					t.Fatalf("%s: BatchReadBlobs: %v", ctxs, err)
				}
				rr := resp.Responses[0]
				if rr.Status.GetCode() != 0 {
					t.Fatalf("%s: per-blob status %d for a present blob", ctxs, rr.Status.GetCode())
				}
				if rr.Digest.GetHash() != b.Hash || rr.Digest.GetSizeBytes() != n {
					t.Fatalf("%s: response digest %v", ctxs, rr.Digest)
				}
				got := rr.Data
				if rr.Compressor == pb.Compressor_ZSTD {
					if path == "batch" {
						t.Fatalf("%s: zstd data though not acceptable", ctxs)
					}
					got, err = gen.DecodeBoth(rr.Data)
					if err != nil {
						t.Fatalf("%s: %v", ctxs, err)
					}
				} else if rr.Compressor != pb.Compressor_IDENTITY {
					t.Fatalf("%s: compressor %v", ctxs, rr.Compressor)
				}
				if !bytes.Equal(got, b.Data) {
					t.Fatalf("%s: data differs (got %d bytes)", ctxs, len(got))
				}
			case "bs":
				got, code, err := cl.BSRead(s, cl.ReadName(inst, b.Hash, n, false), off, limit)
				if !bytes.HasPrefix(want, got) {
					t.Fatalf("%s: delivered bytes are not a prefix of [offset,n) (got %d bytes, code %v)", ctxs, len(got), code)
				}
				if limit > 0 && int64(len(got)) > limit {
					t.Fatalf("%s: delivered %d bytes > read_limit", ctxs, len(got))
				}
				rest := n - off
				if code == codes.OK {
					exp := rest
					if limit > 0 && limit < rest {
						exp = limit
					}
					if int64(len(got)) != exp {
						t.Fatalf("%s: success with %d bytes, want %d", ctxs, len(got), exp)
					}
					E.Label("bs.ok")
				} else {
					mustSucceed := off < n && (limit == 0 || limit >= rest)
					if mustSucceed {
						t.Fatalf("%s: read of a present blob failed: %v", ctxs, err)
					}
					if off == n {
						E.Label("bs.offset=n.error")
					} else {
						E.Label("bs.limit<rest.error")
					}
				}
			case "bs-zstd":
				got, code, err := cl.BSRead(s, cl.ReadName(inst, b.Hash, n, true), off, 0)
				if code != codes.OK {
					if off < n {
						t.Fatalf("%s: compressed read of a present blob failed: %v", ctxs, err)
					}
					E.Label("bs-zstd.offset=n.error")
					break
				}
				dec, err := gen.DecodeBoth(got)
				if err != nil {
					t.Fatalf("%s: %v", ctxs, err)
				}
				if !bytes.Equal(dec, want) {
					t.Fatalf("%s: decoded %d bytes, want %d", ctxs, len(dec), len(want))
				}
			case "disk", "disk-unknown", "diskz", "diskz-unknown":
				z := path == "diskz" || path == "diskz-unknown"
				sz := n
				if path == "disk-unknown" || path == "diskz-unknown" {
					sz = -1
				}
				got, fs, err, rerr := diskRead(s, z, b.Hash, sz, off)
				if err != nil || got == nil && fs < 0 {
					if off < n {
						t.Fatalf("%s: disk read of a present blob: miss/err %v", ctxs, err)
					}
					E.Label("disk.offset=n.miss-or-error")
					break
				}
				if fs != n {
					t.Fatalf("%s: reported size %d, want %d", ctxs, fs, n)
				}
				if rerr != nil {
					t.Fatalf("%s: stream error %v", ctxs, rerr)
				}
				if z {
					got, err = gen.DecodeBoth(got)
					if err != nil {
						t.Fatalf("%s: %v", ctxs, err)
					}
				}
				if !bytes.Equal(got, want) {
					t.Fatalf("%s: got %d bytes, want %d", ctxs, len(got), len(want))
				}
			}
		}
		if s.Panics() > 0 {
			t.Fatalf("handler panic: %v", s.PanicLog)
		}
	})
}

// TestC02Empty: the empty blob is readable on every path from an empty cache.
func TestC02Empty(t *testing.T) {
	const empty = "e3b0c44298fc1c149afbf4c8996fb92427ae41e4649b934ca495991b7852b855"
	rt.Check(t, rt.N(8, 16), func(t *rapid.T) {
		r := drawCfg(t, "r")
		s, err := stack.New(stack.Opts{Storage: r.Storage, Zstd: r.Codec})
		if err != nil {
			t.Fatal(err)
		}
		defer s.Close()
		E.Case("empty|"+r.Storage+r.Codec, true, "path=empty-blob")
		if resp := cl.HTTPGet(s, "/cas/"+empty, nil); resp.Code != 200 || len(resp.Body) != 0 {
			t.Fatalf("HTTP GET empty blob: %d, %d bytes", resp.Code, len(resp.Body))
		}
		resp := cl.HTTPGet(s, "/cas/"+empty, map[string]string{"Accept-Encoding": "zstd"})
		if resp.Code != 200 {
			t.Fatalf("HTTP GET zstd empty blob: %d", resp.Code)
		}
		body := resp.Body
		if resp.Header.Get("Content-Encoding") == "zstd" {
			if body, err = gen.DecodeBoth(body); err != nil {
				t.Fatal(err)
			}
		}
		if len(body) != 0 {
			t.Fatalf("empty blob decoded to %d bytes", len(body))
		}
		if resp := cl.HTTPHead(s, "/cas/"+empty); resp.Code != 200 || resp.Header.Get("Content-Length") != "0" {
			t.Fatalf("HEAD empty blob: %d %q", resp.Code, resp.Header.Get("Content-Length"))
		}
		for _, z := range []bool{false, true} {
			br, err := cl.BatchRead(s, []*pb.Digest{{Hash: empty, SizeBytes: 0}}, z)
			if err != nil || len(br.Responses) != 1 || br.Responses[0].Status.GetCode() != 0 {
				t.Fatalf("BatchReadBlobs(empty, zstd=%v): %v %v", z, err, br)
			}
			d := br.Responses[0].Data
			if br.Responses[0].Compressor == pb.Compressor_ZSTD {
				if d, err = gen.DecodeBoth(d); err != nil {
					t.Fatal(err)
				}
			}
			if len(d) != 0 {
				t.Fatalf("BatchReadBlobs empty: %d bytes", len(d))
			}
			got, code, err := cl.BSRead(s, cl.ReadName("", empty, 0, z), 0, 0)
			if code != codes.OK {
				t.Fatalf("ByteStream.Read(empty, zstd=%v): %v", z, err)
			}
			if z && len(got) > 0 {
				if got, err = gen.DecodeBoth(got); err != nil {
					t.Fatal(err)
				}
			}
			if len(got) != 0 {
				t.Fatalf("ByteStream.Read empty: %d bytes", len(got))
			}
		}
		m, err := cl.FindMissing(s, "", []*pb.Digest{{Hash: empty, SizeBytes: 0}})
		if err != nil || len(m) != 0 {
			t.Fatalf("FindMissingBlobs(empty) = %v, %v", m, err)
		}
	})
}

// genDir builds a Directory tree bottom-up; returns the root message, all
// Directory messages in GetTree's pre-order, and the blobs (serialised).
type dirNode struct {
	msg      *pb.Directory
	data     []byte
	children []*dirNode
}

func genDirTree(t *rapid.T, depth int, ctr *int) *dirNode {
	d := &pb.Directory{}
	nf := rapid.IntRange(0, 3).Draw(t, "nfiles")
	for i := 0; i < nf; i++ {
		*ctr++
		content := []byte(fmt.Sprintf("file-%d", *ctr))
		d.Files = append(d.Files, &pb.FileNode{Name: fmt.Sprintf("f%d", *ctr), Digest: &pb.Digest{Hash: gen.SHA(content), SizeBytes: int64(len(content))}, IsExecutable: rapid.Bool().Draw(t, "exec")})
	}
	node := &dirNode{msg: d}
	if depth > 0 {
		nd := rapid.IntRange(0, 3).Draw(t, "ndirs")
		for i := 0; i < nd; i++ {
			*ctr++
			child := genDirTree(t, depth-1, ctr)
			node.children = append(node.children, child)
			d.Directories = append(d.Directories, &pb.DirectoryNode{Name: fmt.Sprintf("d%d", *ctr), Digest: &pb.Digest{Hash: gen.SHA(child.data), SizeBytes: int64(len(child.data))}})
		}
	}
	if rapid.Bool().Draw(t, "symlink") {
		*ctr++
		d.Symlinks = append(d.Symlinks, &pb.SymlinkNode{Name: fmt.Sprintf("s%d", *ctr), Target: "../x"})
	}
	// Directories are never empty on the wire here: a zero-length blob is the
	// empty blob, which GetTree treats as an (empty) Directory as well.
	if len(d.Files) == 0 && len(d.Directories) == 0 && len(d.Symlinks) == 0 {
		*ctr++
		d.Symlinks = append(d.Symlinks, &pb.SymlinkNode{Name: fmt.Sprintf("s%d", *ctr), Target: "y"})
	}
	b, err := proto.Marshal(d)
	if err != nil {
		panic(err)
	}
	node.data = b
	return node
}

func preorder(n *dirNode, out *[]*dirNode) {
	*out = append(*out, n)
	for _, c := range n.children {
		preorder(c, out)
	}
}

// TestC02Tree: GetTree returns the stored Directory blobs, decoded, unchanged.
func TestC02Tree(t *testing.T) {
	rt.Check(t, rt.N(60, 400), func(t *rapid.T) {
		w := drawCfg(t, "w")
		s, err := stack.New(stack.Opts{Storage: w.Storage, Zstd: w.Codec})
		if err != nil {
			t.Fatal(err)
		}
		defer s.Close()
		ctr := 0
		root := genDirTree(t, rapid.IntRange(0, 3).Draw(t, "depth"), &ctr)
		var all []*dirNode
		preorder(root, &all)
		for _, n := range all {
			if err := s.Cache.Put(context.Background(), cache.CAS, gen.SHA(n.data), int64(len(n.data)), bytes.NewReader(n.data)); err != nil {
				t.Fatal(err)
			}
		}
		E.Case(fmt.Sprintf("tree|%d|%s", len(all), w.Storage), len(all) > 1, "path=gettree", fmt.Sprintf("tree.dirs=%d", min(len(all), 10)))
		ctx, cancel := cl.Ctx()
		defer cancel()
		st, err := s.CAS.GetTree(ctx, &pb.GetTreeRequest{RootDigest: &pb.Digest{Hash: gen.SHA(root.data), SizeBytes: int64(len(root.data))}})
		if err != nil {
			t.Fatal(err)
		}
		var got []*pb.Directory
		for {
			r, err := st.Recv()
			if err == io.EOF {
				break
			}
			if err != nil {
				t.Fatalf("GetTree: %v", err)
			}
			got = append(got, r.Directories...)
		}
		if len(got) != len(all) {
			t.Fatalf("GetTree returned %d directories, want %d", len(got), len(all))
		}
		// REAPI does not fix the order; compare as multisets of serialised messages.
		cnt := map[string]int{}
		for _, n := range all {
			cnt[string(n.data)]++
		}
		for _, g := range got {
			b, _ := proto.MarshalOptions{Deterministic: true}.Marshal(g)
			// re-marshal of the original for a canonical comparison
			found := false
			for k := range cnt {
				var o pb.Directory
				_ = proto.Unmarshal([]byte(k), &o)
				if proto.Equal(&o, g) && cnt[k] > 0 {
					cnt[k]--
					found = true
					break
				}
			}
			if !found {
				t.Fatalf("GetTree returned a Directory that was not stored: %x", b)
			}
		}
		if s.Panics() > 0 {
			t.Fatalf("panic: %v", s.PanicLog)
		}
	})
}

// TestC02Inline: stdout/stderr/output-file bytes inlined into a returned
// ActionResult equal the stored blobs.
func TestC02Inline(t *testing.T) {
	rt.Check(t, rt.N(60, 400), func(t *rapid.T) {
		w := drawCfg(t, "w")
		s, err := stack.New(stack.Opts{Storage: w.Storage, Zstd: w.Codec})
		if err != nil {
			t.Fatal(err)
		}
		defer s.Close()
		nf := rapid.IntRange(0, 4).Draw(t, "nfiles")
		ar := &pb.ActionResult{ExitCode: 3}
		blobs := map[string][]byte{}
		put := func(b gen.Blob) *pb.Digest {
			if err := s.Cache.Put(context.Background(), cache.CAS, b.Hash, b.Size, bytes.NewReader(b.Data)); err != nil {
				t.Fatal(err)
			}
			blobs[b.Hash] = b.Data
			return &pb.Digest{Hash: b.Hash, SizeBytes: b.Size}
		}
		var inlineFiles []string
		for i := 0; i < nf; i++ {
			b := gen.DrawBlob(t, fmt.Sprintf("f%d", i), 1, gen.MiB+10)
			p := fmt.Sprintf("out/f%d", i)
			ar.OutputFiles = append(ar.OutputFiles, &pb.OutputFile{Path: p, Digest: put(b)})
			if rapid.Bool().Draw(t, "inline") {
				inlineFiles = append(inlineFiles, p)
			}
		}
		so := gen.DrawBlob(t, "stdout", 1, gen.MiB+10)
		se := gen.DrawBlob(t, "stderr", 1, 70000)
		ar.StdoutDigest = put(so)
		ar.StderrDigest = put(se)
		key := gen.SHA([]byte("action"))
		ctx, cancel := cl.Ctx()
		defer cancel()
		if _, err := s.AC.UpdateActionResult(ctx, &pb.UpdateActionResultRequest{ActionDigest: &pb.Digest{Hash: key, SizeBytes: 1}, ActionResult: ar}); err != nil {
			t.Fatal(err)
		}
		inO, inE := rapid.Bool().Draw(t, "inlineStdout"), rapid.Bool().Draw(t, "inlineStderr")
		got, err := s.AC.GetActionResult(ctx, &pb.GetActionResultRequest{ActionDigest: &pb.Digest{Hash: key, SizeBytes: 1}, InlineStdout: inO, InlineStderr: inE, InlineOutputFiles: inlineFiles})
		if err != nil {
			t.Fatalf("GetActionResult: %v", err)
		}
		ninl := 0
		check := func(what string, raw []byte, d *pb.Digest) {
			if len(raw) == 0 {
				return
			}
			ninl++
			if d == nil {
				t.Fatalf("%s inlined without digest", what)
			}
			if !bytes.Equal(raw, blobs[d.Hash]) {
				t.Fatalf("%s: inlined %d bytes differ from the stored blob (%d bytes)", what, len(raw), len(blobs[d.Hash]))
			}
			if d.SizeBytes != int64(len(raw)) {
				t.Fatalf("%s: digest size %d but %d bytes inlined", what, d.SizeBytes, len(raw))
			}
		}
		check("stdout", got.StdoutRaw, got.StdoutDigest)
		check("stderr", got.StderrRaw, got.StderrDigest)
		for _, f := range got.OutputFiles {
			check(f.Path, f.Contents, f.Digest)
		}
		E.Case(fmt.Sprintf("inline|%d|%v%v|%d", nf, inO, inE, ninl), ninl > 0, "path=ac-inline", fmt.Sprintf("inlined=%d", ninl))
	})
}
