package c08

import (
	"os"
	"syscall"
	"time"
)

func atimeOf(fi os.FileInfo) time.Time {
	if st, ok := fi.Sys().(*syscall.Stat_t); ok {
		return time.Unix(st.Atim.Sec, st.Atim.Nsec)
	}
	return fi.ModTime()
}
