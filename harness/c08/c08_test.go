package c08

import (
	"bytes"
	"context"
	"fmt"
	"io"
	"os"
	"path/filepath"
	"strings"
	"sync"
	"testing"
	"time"

	"github.com/buchgr/bazel-remote/v2/cache"
	"github.com/buchgr/bazel-remote/v2/cache/disk"
	pb "github.com/buchgr/bazel-remote/v2/genproto/build/bazel/remote/execution/v2"
	"google.golang.org/protobuf/proto"
	"pgregory.net/rapid"

	"verif/harness/internal/casfmt"
	"verif/harness/internal/ev"
	"verif/harness/internal/fproxy"
	"verif/harness/internal/gen"
	"verif/harness/internal/inv"
	"verif/harness/internal/rt"
	"verif/harness/internal/stack"
)

var E = ev.Get("C08")

// gate parks the background remover before each unlink while closed.
type gateT struct {
	mu     sync.Mutex
	ch     chan struct{}
	parked bool
}

var g = &gateT{}

func (g *gateT) park() {
	g.mu.Lock()
	if !g.parked {
		g.parked, g.ch = true, make(chan struct{})
	}
	g.mu.Unlock()
}
func (g *gateT) release() {
	g.mu.Lock()
	if g.parked {
		g.parked = false
		close(g.ch)
	}
	g.mu.Unlock()
}
func (g *gateT) wait() {
	g.mu.Lock()
	ch, p := g.ch, g.parked
	g.mu.Unlock()
	if p {
		<-ch
	}
}

// unlinkHook lets exactly `allow` unlinks through while parked, so that an
// image can be taken "between unlinks".
var unlinkBudget struct {
	mu sync.Mutex
	n  int
}

func TestMain(m *testing.M) {
	disk.VerifSetHook(func(point string) {
		if point == "evict.unlink" {
			unlinkBudget.mu.Lock()
			if unlinkBudget.n > 0 {
				unlinkBudget.n--
				unlinkBudget.mu.Unlock()
				return
			}
			unlinkBudget.mu.Unlock()
			g.wait()
		}
	})
	rt.Main(m, "C08")
}

// copyDir makes the crash image: a byte copy of every regular file. Under
// the process-kill model every completed write is visible after the kill,
// so a copy taken between two writes IS the post-kill state.
// copyProblem: an image that could not be copied faithfully (out of memory on
// the tmpfs, descriptor limit) says nothing about the cache.
func copyProblem(err error) {
	fmt.Println("VERIF-INFRA: crash image could not be copied:", err)
	panic("VERIF-INFRA: crash image could not be copied: " + err.Error())
}

// fileTimes lists every file of an image with its access and modification
// time (the loader orders files - also two files of one key - by access time).
func fileTimes(dir string) string {
	var sb strings.Builder
	_ = filepath.Walk(dir, func(p string, info os.FileInfo, err error) error {
		if err == nil && info.Mode().IsRegular() {
			rel, _ := filepath.Rel(dir, p)
			fmt.Fprintf(&sb, "%s a=%s m=%s; ", filepath.Base(rel)[60:], atimeOf(info).Format("05.000000000"), info.ModTime().Format("05.000000000"))
		}
		return nil
	})
	return sb.String()
}

func copyDir(src string) string {
	dst := stack.FreshDir()
	_ = filepath.Walk(src, func(p string, info os.FileInfo, err error) error {
		if err != nil || !info.Mode().IsRegular() {
			return nil
		}
		rel, _ := filepath.Rel(src, p)
		// The times first: reading the file below is an access, and the loader
		// orders files (also two files of one key) by access time.
		at, mt := atimeOf(info), info.ModTime()
		b, err := os.ReadFile(p)
		if err != nil {
			if os.IsNotExist(err) {
				return nil // unlinked while copying
			}
			copyProblem(err)
			return nil
		}
		q := filepath.Join(dst, rel)
		if err := os.MkdirAll(filepath.Dir(q), 0o755); err != nil {
			copyProblem(err)
		}
		if err := os.WriteFile(q, b, 0o644); err != nil {
			copyProblem(err)
		}
		// keep the relative age of files; restore the source's own times too
		if err := os.Chtimes(q, at, mt); err != nil {
			copyProblem(err)
		}
		_ = os.Chtimes(p, at, mt)
		return nil
	})
	return dst
}

type val struct {
	kind  cache.EntryKind
	hash  string
	data  []byte
	label string
}

func (v val) key() string { return cache.LookupKey(v.kind, v.hash) }

func acValue(seed uint64, pad int) []byte {
	ar := &pb.ActionResult{ExitCode: int32(seed % 7), ExecutionMetadata: &pb.ExecutedActionMetadata{Worker: fmt.Sprint("w", seed)}}
	// many small repeated fields: truncation at a field boundary still parses
	for i := 0; i < pad; i++ {
		ar.OutputSymlinks = append(ar.OutputSymlinks, &pb.OutputSymlink{Path: fmt.Sprintf("p%d-%d", seed, i), Target: "t"})
	}
	b, _ := proto.Marshal(ar)
	return b
}

// snapReader serves data in slices and calls snap() before the read with
// index crashAt (reads are counted from 0; the read that returns EOF counts).
type snapReader struct {
	data    []byte
	pos     int
	slice   int
	reads   int
	crashAt int
	snap    func(pos int)
	done    bool
}

func (r *snapReader) Read(p []byte) (int, error) {
	if r.reads == r.crashAt && !r.done {
		r.done = true
		r.snap(r.pos)
	}
	r.reads++
	if r.pos >= len(r.data) {
		return 0, io.EOF
	}
	n := r.slice
	if n > len(p) {
		n = len(p)
	}
	if n > len(r.data)-r.pos {
		n = len(r.data) - r.pos
	}
	copy(p, r.data[r.pos:r.pos+n])
	r.pos += n
	return n, nil
}

type image struct {
	dir     string
	stage   string
	inflight *val   // upload in flight at the crash (nil if none)
	torn     int    // bytes of it that had been handed over
	acked    map[string][][]byte // key -> values acknowledged so far (last = current), candidates for AC identity
}

const (
	sigCAS = "torn-serve/kind=cas/storage=uncompressed/read=size-unknown"
	sigRAW = "torn-serve/kind=raw/read=size-unknown"
	sigAC  = "torn-serve/kind=ac/read=size-unknown/parses=yes"
	sigCASFull   = "unverified-serve/kind=cas/storage=uncompressed/read=size-known/payload=wrong-bytes-of-declared-length"
	sigOverwrite = "acked-lost/in-flight-reupload-of-same-key-shadows-acked-file"
	sigSameTick  = "acked-lost/predecessor-awaiting-unlink/same-access-time"
)

func TestC08CrashRestart(t *testing.T) {
	E.SetRule("rapid draws a history on a cache (zstd / uncompressed, either codec, max_size roomy or tight): acknowledged uploads of CAS / AC / RAW values (1 B .. 2.2 MiB, ActionResults built from many small repeated fields so that cuts at field boundaries still parse), then ONE operation with a crash point inside it: an upload or overwrite whose harness-supplied reader copies the cache directory (the crash image; under the process-kill model a copy taken between two writes is the post-kill state) before its k-th read (k drawn: file created but empty, after each slice / 1 MiB chunk, after the last byte but before the chunk table is finalised), a backend fetch whose stream does the same, or an eviction burst with the background remover parked between unlinks; plus an image right after the acknowledgement. Every image is restarted under the same and the other storage mode. Oracle: disk.New succeeds; every value acknowledged before the crash and not evicted is served byte-identically (Get size known / unknown, GetZstd, validated AC lookup); the in-flight value is absent or complete on every read; no CAS read returns bytes whose SHA-256 is not the key; no AC/RAW read returns bytes that are not one completed upload; accounting and directory invariants hold; the interrupted upload can be repeated and is then served. non-trivial: crash point strictly inside an operation; distinct by (operation, kind, storage before/after, size class, crash stage)")
	rt.Check(t, rt.N(120, 900), func(t *rapid.T) {
		g.release()
		storage := rapid.SampledFrom([]string{"zstd", "uncompressed"}).Draw(t, "storage")
		codec := rapid.SampledFrom([]string{"go", "cgo"}).Draw(t, "codec")
		tight := rapid.IntRange(0, 3).Draw(t, "tight") == 0
		maxSize := int64(64 << 20)
		if tight {
			maxSize = int64(rapid.IntRange(8, 40).Draw(t, "maxBlocks")) * 4096
		}
		px := fproxy.New()
		s, err := stack.New(stack.Opts{Storage: storage, Zstd: codec, MaxSize: maxSize, NoServers: true, Proxy: px})
		if err != nil {
			t.Fatal(err)
		}
		defer func() { g.release(); s.Close() }()
		acked := map[string][][]byte{}
		var vals []val
		mk := func(i int, label string) val {
			kind := rapid.SampledFrom([]cache.EntryKind{cache.CAS, cache.CAS, cache.AC, cache.RAW}).Draw(t, label+".kind")
			var data []byte
			if kind == cache.AC {
				data = acValue(uint64(i)+uint64(rapid.IntRange(0, 1000).Draw(t, label+".acseed")), rapid.SampledFrom([]int{0, 3, 40, 400}).Draw(t, label+".acpad"))
			} else {
				lim := 2*gen.MiB + 300000
				if tight {
					lim = int(maxSize / 3)
				}
				data = gen.DrawBlob(t, label+".blob", 1, lim).Data
				if label == "inflight" && kind == cache.CAS && !tight && rapid.IntRange(0, 3).Draw(t, label+".multichunk") == 0 {
					// several 1 MiB chunks: a kill can leave complete chunks followed by nothing
					data = gen.Expand(uint64(i)+4000, rapid.IntRange(gen.MiB+1, 3*gen.MiB+100).Draw(t, label+".bigsize"), rapid.SampledFrom([]string{"rand", "text"}).Draw(t, label+".bigcontent"))
				}
			}
			hash := gen.SHA(data)
			if kind != cache.CAS {
				hash = gen.SHA([]byte(fmt.Sprintf("key-%d", rapid.IntRange(0, 2).Draw(t, label+".keyIdx"))))
			}
			return val{kind, hash, data, label}
		}
		nacked := rapid.IntRange(0, 4).Draw(t, "nacked")
		for i := 0; i < nacked; i++ {
			v := mk(i, fmt.Sprintf("acked%d", i))
			if err := s.Cache.Put(context.Background(), v.kind, v.hash, int64(len(v.data)), bytes.NewReader(v.data)); err != nil {
				continue // e.g. larger than a tight cache: never acknowledged
			}
			acked[v.key()] = append(acked[v.key()], v.data)
			vals = append(vals, v)
		}
		px.Wait()
		s.WaitEvictions(10 * time.Second)

		var images []image
		snapshotAcked := func() map[string][][]byte {
			cp := map[string][][]byte{}
			for k, v := range acked {
				cp[k] = append([][]byte{}, v...)
			}
			return cp
		}
		op := rapid.SampledFrom([]string{"upload", "upload", "upload", "overwrite", "fetch", "evict"}).Draw(t, "op")
		if op == "overwrite" && len(vals) == 0 {
			op = "upload"
		}
		var inflight val
		switch op {
		case "upload", "overwrite", "fetch":
			inflight = mk(99, "inflight")
			if op == "overwrite" {
				old := vals[rapid.IntRange(0, len(vals)-1).Draw(t, "overwriteWhich")]
				if old.kind == cache.CAS {
					inflight = old // re-upload of the same digest
				} else {
					inflight.kind, inflight.hash = old.kind, old.hash
					if inflight.kind == cache.AC {
						inflight.data = acValue(7777, rapid.SampledFrom([]int{1, 50, 500}).Draw(t, "ow.acpad"))
					} else if len(inflight.data) == 0 || inflight.kind != old.kind {
						inflight.data = gen.Expand(4242, rapid.IntRange(1, 20000).Draw(t, "ow.rawlen"), "text")
					}
				}
			}
			if inflight.kind == cache.AC && proto.Unmarshal(inflight.data, &pb.ActionResult{}) != nil {
				inflight.data = acValue(55, 10)
			}
			if inflight.kind == cache.CAS {
				inflight.hash = gen.SHA(inflight.data)
			}
			n := len(inflight.data)
			slice := rapid.SampledFrom([]int{1 << 20, 64 << 10, 4096, 1000}).Draw(t, "slice")
			nreads := (n+slice-1)/slice + 1
			crashAt := rapid.IntRange(0, nreads).Draw(t, "crashAtRead")
			switch rapid.IntRange(0, 4).Draw(t, "crashEdge") {
			case 0:
				crashAt = 0 // file created, nothing written
			case 1:
				crashAt = nreads - 1 // all data handed over, operation not finished
			}
			stage := "mid"
			if crashAt == 0 {
				stage = "created-empty"
			} else if crashAt >= nreads-1 {
				stage = "all-data-not-finalised"
			}
			// The client may also be sending bytes that do not match the digest it
			// named: the upload will be refused, but a kill can come first.
			sendData := inflight.data
			if inflight.kind == cache.CAS && op == "upload" && rapid.IntRange(0, 3).Draw(t, "corruptUpload") == 0 {
				sendData = append([]byte{}, inflight.data...)
				sendData[rapid.IntRange(0, n-1).Draw(t, "flipAt")] ^= 0x20
				if rapid.Bool().Draw(t, "crashAtEnd") {
					crashAt = nreads - 1 + rapid.IntRange(0, 1).Draw(t, "eofRead")
				}
				stage = "corrupt-payload-" + map[bool]string{true: "all-data-not-finalised", false: "mid"}[crashAt >= nreads-1]
			}
			rd := &snapReader{data: sendData, slice: slice, crashAt: crashAt}
			rd.snap = func(pos int) {
				v := inflight
				images = append(images, image{dir: copyDir(s.Dir), stage: op + ":" + stage, inflight: &v, torn: pos, acked: snapshotAcked()})
			}
			var perr error
			if op == "fetch" {
				// the crash happens while the backend stream is copied to disk
				stored := inflight.data
				if inflight.kind == cache.CAS && storage == "zstd" {
					stored = casfmt.Encode(inflight.data, gen.Chunk, func(b []byte) []byte { return gen.ZstdGo(b, 1, false) })
				}
				if _, ok := acked[inflight.key()]; ok {
					op = "upload" // present locally: no fetch would happen
					perr = s.Cache.Put(context.Background(), inflight.kind, inflight.hash, int64(n), rd)
				} else {
					frd := &snapReader{data: stored, slice: slice, crashAt: rapid.IntRange(0, (len(stored)+slice-1)/slice+1).Draw(t, "fetchCrashAt")}
					frd.snap = func(pos int) {
						v := inflight
						images = append(images, image{dir: copyDir(s.Dir), stage: "fetch:" + map[bool]string{true: "created-empty", false: "mid"}[pos == 0], inflight: &v, torn: pos, acked: snapshotAcked()})
					}
					px.Set(inflight.kind, inflight.hash, fproxy.Obj{Stored: stored, Logical: int64(n)})
					px.Stream = func() io.Reader { return frd }
					rc, _, gerr := s.Cache.Get(context.Background(), inflight.kind, inflight.hash, int64(n), 0)
					if rc != nil {
						io.Copy(io.Discard, rc)
						rc.Close()
					}
					px.Stream = nil
					perr = gerr
					if rc == nil && gerr == nil {
						perr = fmt.Errorf("miss")
					}
				}
			} else {
				perr = s.Cache.Put(context.Background(), inflight.kind, inflight.hash, int64(n), rd)
			}
			px.Wait()
			if perr == nil {
				acked[inflight.key()] = append(acked[inflight.key()], inflight.data)
				images = append(images, image{dir: copyDir(s.Dir), stage: op + ":after-ack", acked: snapshotAcked()})
			}
		case "evict":
			// a burst of evictions with the remover parked between unlinks
			g.park()
			unlinkBudget.mu.Lock()
			unlinkBudget.n = rapid.IntRange(0, 2).Draw(t, "unlinksBeforeCrash")
			unlinkBudget.mu.Unlock()
			for i := 0; i < rapid.IntRange(1, 6).Draw(t, "nfill"); i++ {
				d := gen.Expand(uint64(500+i), int(maxSize/4), "rand")
				if len(d) > 3<<20 {
					d = d[:3<<20]
				}
				if err := s.Cache.Put(context.Background(), cache.CAS, gen.SHA(d), int64(len(d)), bytes.NewReader(d)); err == nil {
					acked["cas/"+gen.SHA(d)] = append(acked["cas/"+gen.SHA(d)], d)
				}
			}
			px.Wait()
			time.Sleep(2 * time.Millisecond)
			images = append(images, image{dir: copyDir(s.Dir), stage: "evict:between-unlinks", acked: snapshotAcked()})
			g.release()
		}
		// which acknowledged keys are still indexed in the live instance (not evicted)?
		liveIdx := map[string]bool{}
		for _, e := range disk.VerifIndexSnapshot(s.Cache) {
			liveIdx[e.Key] = true
		}
		sizeCls := "small"
		if len(inflight.data) > gen.Chunk {
			sizeCls = ">1chunk"
		} else if len(inflight.data) > 4096 {
			sizeCls = "medium"
		}
		for _, im := range images {
			defer stack.RecycleDir(im.dir)
		}
		for _, im := range images {
			for _, after := range []string{storage, map[string]string{"zstd": "uncompressed", "uncompressed": "zstd"}[storage]} {
				nontrivial := im.inflight != nil || strings.HasPrefix(im.stage, "evict")
				kindS := "-"
				if im.inflight != nil {
					kindS = im.inflight.kind.String()
				}
				E.Case(fmt.Sprintf("%s|%s|%s->%s|%s|%v", im.stage, kindS, storage, after, sizeCls, tight), nontrivial, "stage="+im.stage, "kind="+kindS, "storage="+storage+"->"+after, "size="+sizeCls)
				E.Sample(im.stage+"/"+kindS, map[string]any{"stage": im.stage, "inflight_kind": kindS, "inflight_bytes": len(inflight.data), "handed_over": im.torn, "storage_before": storage, "storage_after": after, "acked_keys": len(im.acked), "tight_cache": tight})
				checkImage(t, im, storage, after, codec, maxSize, tight)
			}
		}
	})
}

// sameTick reports whether dir holds two or more files of the key whose access
// times are all identical (files created within one tick of the kernel's
// coarse clock): the loader orders duplicates by access time only and cannot
// tell the acknowledged file from its not-yet-unlinked predecessor then.
func sameTick(dir, key string) bool {
	var times []time.Time
	_ = filepath.Walk(dir, func(p string, info os.FileInfo, err error) error {
		if err == nil && info.Mode().IsRegular() && strings.Contains(filepath.Base(p), hashOf(key)) && strings.HasPrefix(filepath.ToSlash(p[len(dir)+1:]), strings.SplitN(key, "/", 2)[0]+".v2/") {
			times = append(times, atimeOf(info))
		}
		return nil
	})
	if len(times) < 2 {
		return false
	}
	for _, t := range times[1:] {
		if !t.Equal(times[0]) {
			return false
		}
	}
	return true
}

func hashOf(key string) string { return key[strings.IndexByte(key, '/')+1:] }
func kindOf(key string) cache.EntryKind {
	switch {
	case strings.HasPrefix(key, "cas/"):
		return cache.CAS
	case strings.HasPrefix(key, "ac/"):
		return cache.AC
	}
	return cache.RAW
}

func oneOf(b []byte, cands [][]byte) bool {
	for _, c := range cands {
		if bytes.Equal(b, c) {
			return true
		}
	}
	return false
}

func checkImage(t *rapid.T, im image, before, after, codec string, maxSize int64, tight bool) {
	// restart on a private copy so that both modes see the same image
	dir := copyDir(im.dir)
	defer stack.RecycleDir(dir)
	desc := fmt.Sprintf("image %q storage %s->%s; files: %v", im.stage, before, after, stack.ListFiles(dir))
	desc += "; access / modification times: " + fileTimes(dir)
	if im.inflight != nil {
		desc += fmt.Sprintf("; in flight: %s (%d bytes, %d handed over)", im.inflight.key(), len(im.inflight.data), im.torn)
	}
	tied := map[string]bool{}
	for key := range im.acked {
		if sameTick(dir, key) {
			tied[key] = true
		}
	}
	s, err := stack.New(stack.Opts{Storage: after, Zstd: codec, MaxSize: maxSize, Dir: dir, NoServers: true})
	if err != nil {
		t.Fatalf("restart failed: %v\n%s", err, desc)
	}
	defer s.Close()
	s.WaitEvictions(10 * time.Second)
	read := func(kind cache.EntryKind, hash string, size int64, z bool) (bool, []byte) {
		var rc io.ReadCloser
		var err error
		if z {
			rc, _, err = s.Cache.GetZstd(context.Background(), hash, size, 0)
		} else {
			rc, _, err = s.Cache.Get(context.Background(), kind, hash, size, 0)
		}
		if err != nil || rc == nil {
			return false, nil
		}
		b, rerr := io.ReadAll(rc)
		rc.Close()
		if rerr != nil {
			return false, nil
		}
		if z {
			d, derr := gen.DecodeBoth(b)
			if derr != nil {
				return false, nil
			}
			b = d
		}
		return true, b
	}
	inflightKey := ""
	if im.inflight != nil {
		inflightKey = im.inflight.key()
	}
	// 1. acknowledged before the crash and not evicted => identical. With a
	// roomy cache nothing is evicted, so every acknowledged key must be there.
	for key, versions := range im.acked {
		kind, hash := kindOf(key), hashOf(key)
		cur := versions[len(versions)-1]
		cands := versions
		if key == inflightKey {
			cands = append(append([][]byte{}, versions...), im.inflight.data)
		}
		for _, sz := range []int64{int64(len(cur)), -1} {
			hit, got := read(kind, hash, sz, false)
			if !hit {
				if tight {
					continue // may have been evicted: allowed
				}
				if key == inflightKey && sz >= 0 {
					continue // size-known read while another version is in flight: the other version's size may differ
				}
				if key == inflightKey && E.Known(sigOverwrite) {
					continue
				}
				if tied[key] && E.Known(sigSameTick) {
					continue
				}
				t.Fatalf("value acknowledged before the crash is not served after the restart (%s, size=%d)\n%s", key, sz, desc)
			}
			ok := bytes.Equal(got, cur)
			if key == inflightKey {
				ok = oneOf(got, cands) // the completed new version is fine too
			}
			if kind == cache.CAS && gen.SHA(got) != hash {
				if sz < 0 && after == "uncompressed" || sz < 0 && before == "uncompressed" {
					if E.Known(sigCAS) {
						continue
					}
				}
				// the in-flight upload can name a key that was acknowledged earlier:
				// same input class as in section 2 (F16 variant)
				if key == inflightKey && sz >= 0 && before == "uncompressed" && strings.Contains(im.stage, "corrupt-payload") && int64(len(got)) == sz && E.Known(sigCASFull) {
					continue
				}
				t.Fatalf("CAS read returned %d bytes whose SHA-256 is not the key %s (size=%d)\n%s", len(got), hash, sz, desc)
			}
			if !ok && tied[key] && oneOf(got, versions) && E.Known(sigSameTick) {
				continue // the predecessor (an earlier acknowledged version) won the tie
			}
			if !ok {
				if key == inflightKey && sz < 0 && kind != cache.CAS {
					sig := sigRAW
					if kind == cache.AC {
						sig = sigAC
					}
					if E.Known(sig) {
						continue
					}
				}
				t.Fatalf("%s read (size=%d) returned %d bytes that are not byte-identical to a completed upload\n%s", key, sz, len(got), desc)
			}
		}
		if kind == cache.CAS {
			if hit, got := read(kind, hash, int64(len(cur)), true); hit && !bytes.Equal(got, cur) {
				if !(key == inflightKey && before == "uncompressed" && strings.Contains(im.stage, "corrupt-payload") && len(got) == len(cur) && E.Known(sigCASFull)) {
					t.Fatalf("compressed CAS read returned other bytes for %s\n%s", key, desc)
				}
			}
		}
	}
	// 2. the in-flight value: absent or complete, on every read
	if im.inflight != nil {
		v := *im.inflight
		cands := append(append([][]byte{}, im.acked[v.key()]...), v.data)
		compressedRead := func() {
			if hit, got := read(v.kind, v.hash, int64(len(v.data)), true); hit && !bytes.Equal(got, v.data) {
				if !(before == "uncompressed" && strings.Contains(im.stage, "corrupt-payload") && len(got) == len(v.data) && E.Known(sigCASFull)) {
					t.Fatalf("torn CAS entry served through the compressed read (%d bytes)\n%s", len(got), desc)
				}
			}
		}
		// (a failed read drops the entry: whichever kind of read comes first is the
		// one that meets the torn file)
		compressedFirst := v.kind == cache.CAS && rapid.Bool().Draw(t, "compressedReadFirst")
		if compressedFirst {
			compressedRead()
		}
		for _, sz := range []int64{int64(len(v.data)), -1} {
			hit, got := read(v.kind, v.hash, sz, false)
			if !hit {
				continue
			}
			if v.kind == cache.CAS && gen.SHA(got) != v.hash {
				if sz < 0 && E.Known(sigCAS) {
					continue
				}
				if sz >= 0 && before == "uncompressed" && strings.Contains(im.stage, "corrupt-payload") && int64(len(got)) == sz && E.Known(sigCASFull) {
					continue
				}
				t.Fatalf("torn CAS entry served: %d bytes whose SHA-256 is not %s (size=%d)\n%s", len(got), v.hash, sz, desc)
			}
			if v.kind != cache.CAS && !oneOf(got, cands) {
				sig := sigRAW
				if v.kind == cache.AC {
					sig = sigAC
				}
				if sz < 0 && E.Known(sig) {
					continue
				}
				t.Fatalf("torn %s entry served: %d bytes that are no completed upload (size=%d)\n%s", v.kind, len(got), sz, desc)
			}
		}
		if v.kind == cache.CAS && !compressedFirst {
			compressedRead()
		}
		if v.kind == cache.AC {
			ar, raw, err := s.Cache.GetValidatedActionResult(context.Background(), v.hash)
			if err == nil && ar != nil && !oneOf(raw, cands) {
				if len(raw) > 0 && E.Known(sigAC) {
					// known: a truncation that still parses
				} else {
					t.Fatalf("validated action-cache lookup served %d bytes that are no completed upload\n%s", len(raw), desc)
				}
			}
		}
	}
	// 3. invariants of the restarted instance
	if err := inv.Accounting(s, maxSize); err != nil {
		t.Fatalf("after restart: %v\n%s", err, desc)
	}
	if err := inv.DirEqualsIndex(s); err != nil && !isKnownTornLength(err, im) {
		t.Fatalf("after restart: %v\n%s", err, desc)
	}
	// 4. the interrupted upload can simply be repeated
	if im.inflight != nil {
		v := *im.inflight
		if err := s.Cache.Put(context.Background(), v.kind, v.hash, int64(len(v.data)), bytes.NewReader(v.data)); err != nil {
			if !(tight && int64(len(v.data)) > maxSize/2) {
				t.Fatalf("repeating the interrupted upload failed: %v\n%s", err, desc)
			}
		} else if hit, got := read(v.kind, v.hash, int64(len(v.data)), false); !hit || !bytes.Equal(got, v.data) {
			t.Fatalf("repeated upload is not served (hit=%v)\n%s", hit, desc)
		}
	}
}

// A torn headerless file is indexed with its current length; C04's
// "logical size == file length" then holds trivially, so nothing to excuse.
func isKnownTornLength(err error, im image) bool { return false }

// TestC08KnownSameTick re-demonstrates the listed finding sigSameTick on
// every run (and stays silent once it is repaired): an action-cache key is
// overwritten, the process is killed before the remover has unlinked the
// predecessor, and both files carry the same access time (two uploads within
// one tick of the kernel's coarse clock). It never fails.
func TestC08KnownSameTick(t *testing.T) {
	if !E.IsListed(sigSameTick) {
		t.Skip("not listed")
	}
	g.release()
	defer g.release()
	for attempt := 0; attempt < 12; attempt++ {
		s, err := stack.New(stack.Opts{Storage: "zstd", MaxSize: 64 << 20, NoServers: true})
		if err != nil {
			t.Fatal(err)
		}
		key := gen.SHA([]byte(fmt.Sprint("same-tick-", attempt)))
		v1, v2 := acValue(1, 10), acValue(2, 200)
		if err := s.Cache.Put(context.Background(), cache.AC, key, int64(len(v1)), bytes.NewReader(v1)); err != nil {
			t.Fatal(err)
		}
		g.park() // the remover will not get to unlink the predecessor
		unlinkBudget.mu.Lock()
		unlinkBudget.n = 0
		unlinkBudget.mu.Unlock()
		if err := s.Cache.Put(context.Background(), cache.AC, key, int64(len(v2)), bytes.NewReader(v2)); err != nil {
			t.Fatal(err)
		}
		img := copyDir(s.Dir) // the kill
		g.release()
		s.Close()
		// both files were created within one clock tick
		tick := time.Now().Add(-time.Minute).Truncate(time.Second)
		n := 0
		for f := range stack.ListFiles(img) {
			if strings.Contains(f, key) {
				_ = os.Chtimes(filepath.Join(img, f), tick, tick)
				n++
			}
		}
		if n != 2 {
			stack.RecycleDir(img)
			continue
		}
		s2, err := stack.New(stack.Opts{Storage: "zstd", MaxSize: 64 << 20, Dir: img, NoServers: true})
		if err != nil {
			t.Fatal(err)
		}
		s2.WaitEvictions(10 * time.Second)
		rc, _, _ := s2.Cache.Get(context.Background(), cache.AC, key, -1, 0)
		var got []byte
		if rc != nil {
			got, _ = io.ReadAll(rc)
			rc.Close()
		}
		s2.Close()
		stack.RecycleDir(img)
		if !bytes.Equal(got, v2) {
			E.Known(sigSameTick) // the acknowledged overwrite is gone, its predecessor (or nothing) is served
			return
		}
	}
}
