package c07

import (
	"bytes"
	"context"
	"fmt"
	"io"
	"os"
	"path/filepath"
	"strings"
	"sync"
	"testing"
	"time"

	"github.com/buchgr/bazel-remote/v2/cache"
	"github.com/buchgr/bazel-remote/v2/cache/disk"
	pb "github.com/buchgr/bazel-remote/v2/genproto/build/bazel/remote/execution/v2"
	"pgregory.net/rapid"

	"verif/harness/internal/gen"
	"verif/harness/internal/inv"
	"verif/harness/internal/rt"
	"verif/harness/internal/sched"
	"verif/harness/internal/stack"
)

var (
	curSched   *sched.Sched
	curSchedMu sync.Mutex
	hookOnce   sync.Once
)

func installHook() {
	hookOnce.Do(func() {
		disk.VerifSetHook(func(point string) {
			curSchedMu.Lock()
			s := curSched
			curSchedMu.Unlock()
			if s != nil {
				s.Yield(point)
			}
		})
	})
}

// yieldReader yields to the scheduler before every slice it hands over.
type yieldReader struct {
	s    *sched.Sched
	data []byte
	pos  int
	step int
}

func (r *yieldReader) Read(p []byte) (int, error) {
	r.s.Yield("reader.read")
	if r.pos >= len(r.data) {
		return 0, io.EOF
	}
	n := r.step
	if n > len(p) {
		n = len(p)
	}
	if n > len(r.data)-r.pos {
		n = len(r.data) - r.pos
	}
	copy(p, r.data[r.pos:r.pos+n])
	r.pos += n
	return n, nil
}

// TestC07Scheduled: engine A. The harness owns the schedule at the yield
// points; (operations, schedule) is one replayable, shrinkable value.
func TestC07Scheduled(t *testing.T) {
	installHook()
	rt.Check(t, rt.N(1200, 8000), func(t *rapid.T) {
		storage := rapid.SampledFrom([]string{"zstd", "uncompressed"}).Draw(t, "storage")
		tight := rapid.IntRange(0, 2).Draw(t, "tight") == 0
		maxSize := int64(64 << 20)
		if tight {
			maxSize = int64(rapid.IntRange(6, 16).Draw(t, "maxBlocks")) * 4096
		}
		s, err := stack.New(stack.Opts{Storage: storage, MaxSize: maxSize, NoServers: true})
		if err != nil {
			t.Fatal(err)
		}
		sc := sched.New()
		sc.BatchQueued = func() bool { return disk.VerifEvictionBatchQueued(s.Cache) }
		defer func() {
			curSchedMu.Lock()
			curSched = nil
			curSchedMu.Unlock()
			s.Close()
		}()
		// keys: one AC/RAW key with many values, one CAS digest
		kind := rapid.SampledFrom([]cache.EntryKind{cache.AC, cache.RAW}).Draw(t, "kind")
		hash := gen.SHA([]byte("shared"))
		casVal := mkValue(2, 1002, rapid.SampledFrom([]int{10, 5000, 20000}).Draw(t, "casSize"))
		casHash := gen.SHA(casVal)
		key, casKey := cache.LookupKey(kind, hash), "cas/"+casHash
		// pre-state
		pre := rapid.SampledFrom([]string{"empty", "v1-present", "cas-present", "both", "damaged", "damaged-cas", "damaged-cas"}).Draw(t, "pre")
		h := &history{}
		sizes := map[string]map[int]int{key: {}, casKey: {1002: len(casVal)}}
		corruptKeys := map[string]bool{}
		putNow := func(k cache.EntryKind, hs string, id int, data []byte) {
			e := event{op: "put", key: cache.LookupKey(k, hs), val: id, inv: h.tick()}
			err := s.Cache.Put(context.Background(), k, hs, int64(len(data)), bytes.NewReader(data))
			e.res, e.ok, e.detail = h.tick(), err == nil, fmt.Sprintf("len=%d err=%v (pre-state)", len(data), err)
			h.add(e)
		}
		if pre == "v1-present" || pre == "both" || pre == "damaged" {
			v := mkValue(0, 1, 3000)
			sizes[key][1] = len(v)
			putNow(kind, hash, 1, v)
		}
		if pre == "cas-present" || pre == "both" || pre == "damaged-cas" {
			putNow(cache.CAS, casHash, 1002, casVal)
		}
		if pre == "damaged-cas" {
			// a CAS file whose header no longer parses (or which is gone): every reader
			// that opens it takes the "drop the entry" path
			for f := range stack.ListFiles(s.Dir) {
				if strings.Contains(f, casHash) {
					p := filepath.Join(s.Dir, f)
					switch rapid.SampledFrom([]string{"truncate40", "truncate0", "delete"}).Draw(t, "casDamage") {
					case "truncate40":
						os.Truncate(p, 40)
					case "truncate0":
						os.Truncate(p, 0)
					default:
						os.Remove(p)
					}
				}
			}
			corruptKeys[casKey] = true
		}
		if pre == "damaged" {
			for f := range stack.ListFiles(s.Dir) {
				if strings.Contains(f, hash) {
					p := filepath.Join(s.Dir, f)
					if rapid.Bool().Draw(t, "deleteFile") {
						os.Remove(p)
					} else {
						os.Truncate(p, 7)
					}
				}
			}
			corruptKeys[key] = true
		}
		s.WaitEvictions(5 * time.Second)
		curSchedMu.Lock()
		curSched = sc
		curSchedMu.Unlock()

		ntasks := rapid.IntRange(2, 4).Draw(t, "ntasks")
		nextID := 10
		sumPut := 0
		var shape []string
		sameKey := 0
		for i := 0; i < ntasks; i++ {
			op := rapid.SampledFrom([]string{"put", "put", "get", "get", "contains", "put-cas", "get-cas", "findmissing", "filler"}).Draw(t, "op")
			if op == "filler" && !tight {
				op = "get"
			}
			if pre == "damaged-cas" && rapid.IntRange(0, 2).Draw(t, "casBias") > 0 {
				op = rapid.SampledFrom([]string{"get-cas", "get-cas", "put-cas"}).Draw(t, "casOp")
			}
			shape = append(shape, op)
			name := fmt.Sprintf("t%d:%s", i, op)
			switch op {
			case "put":
				sameKey++
				nextID++
				id := nextID
				size := rapid.SampledFrom([]int{1, 100, 3000, 9000}).Draw(t, "size")
				if tight && sumPut > 0 && rapid.IntRange(0, 2).Draw(t, "justFits") == 0 {
					// exactly fits beside the reservations of the uploads drawn so far,
					// though not once it is rounded up to whole blocks
					if js := int(maxSize) - sumPut - rapid.SampledFrom([]int{0, 1, 100}).Draw(t, "slack"); js >= 1 && js <= 60000 {
						size = js
					}
				}
				sumPut += size
				data := mkValue(0, id, size)
				sizes[key][id] = size
				step := rapid.SampledFrom([]int{size, size/2 + 1, 1000}).Draw(t, "step")
				sc.Go(name, func() {
					e := event{op: "put", key: key, val: id, inv: h.tick()}
					err := s.Cache.Put(context.Background(), kind, hash, int64(size), &yieldReader{s: sc, data: data, step: step})
					e.res, e.ok, e.detail = h.tick(), err == nil, fmt.Sprintf("len=%d err=%v", size, err)
					h.add(e)
				})
			case "put-cas":
				sc.Go(name, func() {
					e := event{op: "put", key: casKey, val: 1002, inv: h.tick()}
					err := s.Cache.Put(context.Background(), cache.CAS, casHash, int64(len(casVal)), &yieldReader{s: sc, data: casVal, step: len(casVal)/2 + 1})
					e.res, e.ok, e.detail = h.tick(), err == nil, fmt.Sprintf("len=%d err=%v", len(casVal), err)
					h.add(e)
				})
			case "get", "get-cas":
				k, hs, kk, keyIdx := kind, hash, key, 0
				size := int64(-1)
				if op == "get-cas" {
					k, hs, kk, keyIdx = cache.CAS, casHash, casKey, 2
					if rapid.Bool().Draw(t, "sizeKnown") {
						size = int64(len(casVal))
					}
				} else {
					sameKey++
				}
				slice := rapid.SampledFrom([]int{100000, 1000, 64}).Draw(t, "slice")
				sc.Go(name, func() {
					e := event{op: "get", key: kk, inv: h.tick(), val: -1}
					rc, fs, err := s.Cache.Get(context.Background(), k, hs, size, 0)
					if rc != nil && err == nil {
						var buf bytes.Buffer
						tmp := make([]byte, slice)
						var rerr error
						for {
							sc.Yield("consumer.read")
							n, er := rc.Read(tmp)
							buf.Write(tmp[:n])
							if er != nil {
								if er != io.EOF {
									rerr = er
								}
								break
							}
						}
						rc.Close()
						e.ok, e.val = true, decodeValue(keyIdx, buf.Bytes())
						if rerr != nil || fs != int64(buf.Len()) {
							e.val = -2
						}
						e.detail = fmt.Sprintf("len=%d reported=%d readerr=%v", buf.Len(), fs, rerr)
					} else if rc != nil {
						rc.Close()
					}
					e.res = h.tick()
					h.add(e)
				})
			case "contains":
				sameKey++
				sc.Go(name, func() {
					e := event{op: "contains", key: key, inv: h.tick()}
					e.ok, _ = s.Cache.Contains(context.Background(), kind, hash, -1)
					e.res = h.tick()
					h.add(e)
				})
			case "findmissing":
				sc.Go(name, func() {
					_, _ = s.Cache.FindMissingCasBlobs(context.Background(), []*pb.Digest{{Hash: casHash, SizeBytes: int64(len(casVal))}})
				})
			case "filler":
				d := mkValue(9, 7000+i, int(maxSize/2))
				sc.Go(name, func() {
					_ = s.Cache.Put(context.Background(), cache.CAS, gen.SHA(d), int64(len(d)), &yieldReader{s: sc, data: d, step: len(d)})
				})
			}
		}
		// schedules with long stretches: the task that ran last mostly keeps
		// running (interleavings that matter need one request to get through
		// several yield points, then another to run to its end, ...)
		lastTask := ""
		err = sc.Run(func(parked []*sched.Task) int {
			if len(parked) == 1 {
				lastTask = parked[0].Name
				return 0
			}
			for i, p := range parked {
				if p.Name == lastTask && rapid.IntRange(0, 3).Draw(t, "stay") > 0 {
					return i
				}
			}
			i := rapid.IntRange(0, len(parked)-1).Draw(t, "sched")
			lastTask = parked[i].Name
			return i
		}, func() int64 { return disk.VerifQueuedEvictionBytes(s.Cache) })
		curSchedMu.Lock()
		curSched = nil
		curSchedMu.Unlock()
		inWindow := false
		for _, l := range sc.Log {
			if strings.Contains(l, "@get.") || strings.Contains(l, "@put.written") || strings.Contains(l, "@put.reserved") || strings.Contains(l, "@evict.unlink") {
				inWindow = true
			}
		}
		nontrivial := sameKey >= 2 && sc.Switches >= 1 && inWindow
		E.Case(fmt.Sprintf("sched|%s|%v|%s|%v|%s", storage, tight, pre, shape, strings.Join(sc.Log, ">")), nontrivial, "engine=scheduled", "pre="+pre, "mode="+storage, fmt.Sprintf("tight=%v", tight), fmt.Sprintf("nontrivial=%v", nontrivial), fmt.Sprintf("switches>=3=%v", sc.Switches >= 3))
		E.LabelN("schedule-steps", int64(len(sc.Log)))
		if nontrivial {
			E.Sample("sched/"+pre, map[string]any{"storage": storage, "tight": tight, "pre_state": pre, "tasks": shape, "schedule": sc.Log})
		}
		ctxs := fmt.Sprintf("storage=%s tight=%v pre=%s tasks=%v\nschedule: %s", storage, tight, pre, shape, strings.Join(sc.Log, " > "))
		if err != nil {
			gs := stack.GoroutinesWith("cache/disk.")
			t.Fatalf("schedule did not complete (deadlock?): %v\n%s\ngoroutines in cache/disk:\n%s", err, ctxs, strings.Join(gs, "\n\n"))
		}
		// read-back after the last response: what was acknowledged must be there
		for _, kk := range []struct {
			k  cache.EntryKind
			hs string
		}{{kind, hash}, {cache.CAS, casHash}} {
			e := event{op: "contains", key: cache.LookupKey(kk.k, kk.hs), inv: h.tick(), detail: "(read-back)"}
			e.ok, _ = s.Cache.Contains(context.Background(), kk.k, kk.hs, -1)
			e.res = h.tick()
			h.add(e)
		}
		evs := h.events
		if herr := checkHistory(evs, !tight, false, sizes, corruptKeys); herr != nil {
			t.Fatalf("%v\n%s\nhistory:\n%s", herr, ctxs, fmtHistory(evs))
		}
		if aerr := inv.SettledAccounting(s, maxSize, 3*time.Second); aerr != nil {
			t.Fatalf("at quiescence: %v\n%s\nhistory:\n%s", aerr, ctxs, fmtHistory(evs))
		}
		if derr := inv.DirEqualsIndex(s); derr != nil {
			excused := len(corruptKeys) > 0
			for _, part := range strings.Split(strings.TrimPrefix(derr.Error(), "directory != index: "), "; ") {
				if !strings.Contains(part, hash) && !(corruptKeys[casKey] && strings.Contains(part, casHash)) {
					excused = false
				}
			}
			if !excused {
				t.Fatalf("at quiescence: %v\n%s\nhistory:\n%s", derr, ctxs, fmtHistory(evs))
			}
		}
	})
}
