package c07

import (
	"bytes"
	"context"
	"encoding/binary"
	"fmt"
	"io"
	"os"
	"path/filepath"
	"sort"
	"strings"
	"sync"
	"sync/atomic"
	"testing"
	"time"

	"github.com/buchgr/bazel-remote/v2/cache"
	"github.com/buchgr/bazel-remote/v2/cache/disk"
	pb "github.com/buchgr/bazel-remote/v2/genproto/build/bazel/remote/execution/v2"
	"google.golang.org/protobuf/proto"
	"pgregory.net/rapid"

	"verif/harness/internal/casfmt"
	"verif/harness/internal/ev"
	"verif/harness/internal/fproxy"
	"verif/harness/internal/gen"
	"verif/harness/internal/inv"
	"verif/harness/internal/rt"
	"verif/harness/internal/stack"
)

func TestMain(m *testing.M) { rt.Main(m, "C07") }

var E = ev.Get("C07")

// ------------------------------------------------------------------ history

type event struct {
	op       string // put | get | contains | findmissing | vac
	key      string
	val      int   // for put: value id; for get: value id read (-1 = miss, -2 = torn/unknown bytes)
	ok       bool  // put acknowledged / lookup hit
	inv, res int64 // logical invocation / response times
	detail   string
}

type history struct {
	mu     sync.Mutex
	clock  atomic.Int64
	events []event
}

func (h *history) tick() int64 { return h.clock.Add(1) }
func (h *history) add(e event) {
	h.mu.Lock()
	h.events = append(h.events, e)
	h.mu.Unlock()
}

// value encodes (key index, value id) in its bytes so that a read can be
// attributed to exactly one put; torn or mixed bytes fail the self-check.
func mkValue(keyIdx, id, size int) []byte {
	b := make([]byte, size)
	for off := 0; off+8 <= size; off += 8 {
		binary.LittleEndian.PutUint32(b[off:], uint32(id))
		binary.LittleEndian.PutUint32(b[off+4:], uint32(off)^uint32(keyIdx)<<24)
	}
	for i := size &^ 7; i < size; i++ {
		b[i] = byte(id)
	}
	return b
}

func decodeValue(keyIdx int, b []byte) int {
	if len(b) < 8 {
		if len(b) == 0 {
			return -2
		}
		id := int(b[0])
		for _, x := range b {
			if int(x) != id {
				return -2
			}
		}
		return id
	}
	id := int(binary.LittleEndian.Uint32(b))
	if !bytes.Equal(b, mkValue(keyIdx, id, len(b))) {
		return -2
	}
	return id
}

// checkHistory is the C07 history oracle.
func checkHistory(evs []event, ample bool, backend bool, sizes map[string]map[int]int, corruptKeys map[string]bool) error {
	puts := map[string][]event{}
	for _, e := range evs {
		if e.op == "put" {
			puts[e.key] = append(puts[e.key], e)
		}
	}
	// A key whose file the harness damaged is "healed" by the first upload of
	// the workload that is acknowledged: that upload replaces the damaged file,
	// and a request invoked after the acknowledgement can only see the new one
	// (a reader that looked the key up earlier and then fails on the damaged
	// file must not drop the NEW entry). From then on the key is judged like
	// any other.
	healed := map[string]int64{}
	for k, ps := range puts {
		for _, p := range ps {
			if p.ok && !strings.Contains(p.detail, "(pre-state)") && (healed[k] == 0 || p.res < healed[k]) {
				healed[k] = p.res
			}
		}
	}
	damaged := func(e event) bool {
		return corruptKeys[e.key] && !(healed[e.key] > 0 && e.inv > healed[e.key])
	}
	for _, e := range evs {
		if e.op != "get" {
			if (e.op == "contains") && !e.ok && ample && !damaged(e) {
				for _, p := range puts[e.key] {
					if p.ok && p.res < e.inv && !(corruptKeys[e.key] && strings.Contains(p.detail, "(pre-state)")) {
						return fmt.Errorf("existence check of %s invoked at %d answered 'absent' although put #%d was acknowledged at %d (no space pressure)", e.key, e.inv, p.val, p.res)
					}
				}
			}
			continue
		}
		if damaged(e) {
			// The file of this key was damaged behind the cache's back; what a read
			// of it returns is not C07's question (headerless entries carry no
			// redundancy). Index and accounting must survive: checked at quiescence.
			continue
		}
		switch {
		case e.val == -2:
			return fmt.Errorf("read of %s returned bytes that are not the complete value of any single upload: %s", e.key, e.detail)
		case e.val == -1:
			if ample && !damaged(e) {
				for _, p := range puts[e.key] {
					if p.ok && p.res < e.inv && !(corruptKeys[e.key] && strings.Contains(p.detail, "(pre-state)")) {
						return fmt.Errorf("read of %s invoked at %d missed although put #%d was acknowledged at %d (no space pressure)", e.key, e.inv, p.val, p.res)
					}
				}
			}
		default:
			// the earliest upload of that value (content-addressed keys are uploaded several times)
			var src *event
			for i := range puts[e.key] {
				if puts[e.key][i].val == e.val && (src == nil || puts[e.key][i].inv < src.inv) {
					src = &puts[e.key][i]
				}
			}
			if src == nil {
				if corruptKeys[e.key] && e.val == preloadedID(e.key) {
					continue // the value the harness stored before damaging the file... would be a surprise, but it is a real upload
				}
				return fmt.Errorf("read of %s returned value #%d which nobody uploaded to that key", e.key, e.val)
			}
			if src.inv > e.res {
				return fmt.Errorf("read of %s (response at %d) returned value #%d whose upload was only invoked at %d", e.key, e.res, e.val, src.inv)
			}
			// for the staleness test use the latest acknowledgement of that same value before the read started
			for i := range puts[e.key] {
				p := puts[e.key][i]
				if p.val == e.val && p.ok && p.res < e.inv && p.res > src.res {
					src = &puts[e.key][i]
				}
			}
			if want, ok := sizes[e.key][e.val]; ok && !strings.Contains(e.detail, fmt.Sprintf("len=%d ", want)) {
				return fmt.Errorf("read of %s returned value #%d with a wrong size: %s (uploaded %d bytes)", e.key, e.val, e.detail, want)
			}
			// stale: another acknowledged upload lies wholly between this value's acknowledgement and the read's start
			// (only without eviction and without a backend: an evicted key may be
			// re-fetched from the backend, whose asynchronous uploads are unordered)
			if src.ok && ample && !backend {
				for _, p := range puts[e.key] {
					if p.ok && p.val != e.val && src.res < p.inv && p.res < e.inv {
						return fmt.Errorf("read of %s invoked at %d returned value #%d although value #%d was uploaded (invoked %d, acknowledged %d) wholly after it and before the read", e.key, e.inv, e.val, p.val, p.inv, p.res)
					}
				}
			}
		}
	}
	return nil
}

func preloadedID(key string) int { return 1 }

func fmtHistory(evs []event) string {
	sort.Slice(evs, func(i, j int) bool { return evs[i].inv < evs[j].inv })
	var sb strings.Builder
	for _, e := range evs {
		fmt.Fprintf(&sb, "  [%d..%d] %s %s val=%d ok=%v %s\n", e.inv, e.res, e.op, e.key, e.val, e.ok, e.detail)
	}
	return sb.String()
}

// slowReader hands the upload over in slices, yielding the processor in
// between so that other requests interleave with a half-written file.
type slowReader struct {
	data []byte
	pos  int
	step int
}

func (r *slowReader) Read(p []byte) (int, error) {
	if r.pos >= len(r.data) {
		return 0, io.EOF
	}
	n := r.step
	if n > len(p) {
		n = len(p)
	}
	if n > len(r.data)-r.pos {
		n = len(r.data) - r.pos
	}
	copy(p, r.data[r.pos:r.pos+n])
	r.pos += n
	time.Sleep(time.Microsecond)
	return n, nil
}

type workload struct {
	nworkers int
	ops      [][]wop
}

type wop struct {
	kind  string // put | get | contains | findmissing | filler | vac
	key   int
	val   int
	size  int
	known bool
}

func keyKind(i int) (cache.EntryKind, string) {
	switch i % 3 {
	case 0:
		return cache.AC, gen.SHA([]byte(fmt.Sprint("k", i)))
	case 1:
		return cache.RAW, gen.SHA([]byte(fmt.Sprint("k", i)))
	}
	return cache.CAS, "" // CAS keys are digests of their (single) value
}

// TestC07FreeRunning: generated workloads on real goroutines; history check
// plus C03/C04 at quiescence. Built with -race in the thorough tier.
func TestC07FreeRunning(t *testing.T) {
	E.SetRule("engine B (free-running): rapid draws a workload for 2..12 goroutines against one cache (zstd / uncompressed, roomy or tight max_size, with or without a scripted backend): uploads of distinguishable values v1, v2, ... to a few shared AC / RAW keys with different sizes, re-uploads of shared CAS digests through slow readers, streaming reads with known / unknown size, existence checks, FindMissingBlobs, validated ActionResult lookups whose dependencies miss in several backend workers at once, filler uploads that force eviction, and reads of keys whose file the harness truncated or corrupted beforehand. Oracle: every read returns a miss or the complete, correctly sized bytes of exactly one upload to that key that was invoked before the read's response; no stale value and (with ample space) no miss after an acknowledged upload; at quiescence the accounting (C03) and directory (C04) oracles hold; under -race any report is a violation. engine A (owned schedules): see TestC07Scheduled. non-trivial: >= 2 goroutines overlapped on one key; distinct by (workers, mode, tight, backend, corrupt, op mix class)")
	race := os.Getenv("VERIF_RACE") != ""
	n := rt.N(80, 500)
	if race {
		n = rt.N(60, 250)
	}
	rt.Check(t, n, func(t *rapid.T) {
		storage := rapid.SampledFrom([]string{"zstd", "uncompressed"}).Draw(t, "storage")
		tight := rapid.IntRange(0, 2).Draw(t, "tight") == 0
		maxSize := int64(64 << 20)
		if tight {
			maxSize = int64(rapid.IntRange(8, 30).Draw(t, "maxBlocks")) * 4096
		}
		withBackend := rapid.IntRange(0, 2).Draw(t, "backend") == 0
		var px *fproxy.Proxy
		o := stack.Opts{Storage: storage, MaxSize: maxSize, NoServers: true}
		if withBackend {
			px = fproxy.New()
			px.ContDelay = func(string) time.Duration { return 50 * time.Microsecond }
			o.Proxy = px
		}
		s, err := stack.New(o)
		if err != nil {
			t.Fatal(err)
		}
		defer s.Close()
		nkeys := rapid.IntRange(1, 4).Draw(t, "nkeys")
		nworkers := rapid.IntRange(2, 12).Draw(t, "nworkers")
		nops := rapid.IntRange(2, 25).Draw(t, "opsPerWorker")
		// CAS values are fixed per key
		casData := map[int][]byte{}
		keyHash := map[int]string{}
		keyKindOf := map[int]cache.EntryKind{}
		for k := 0; k < nkeys; k++ {
			kind, h := keyKind(k)
			if kind == cache.CAS {
				casData[k] = mkValue(k, 1000+k, rapid.SampledFrom([]int{10, 5000, 70000, 1100000}).Draw(t, "casSize"))
				if tight && len(casData[k]) > int(maxSize/3) {
					casData[k] = casData[k][:maxSize/3]
					casData[k] = mkValue(k, 1000+k, len(casData[k]))
				}
				h = gen.SHA(casData[k])
			}
			keyHash[k], keyKindOf[k] = h, kind
		}
		// optional: one key's file is damaged on disk before the workload starts
		corruptKeys := map[string]bool{}
		corrupt := rapid.IntRange(0, 3).Draw(t, "corrupt") == 0
		if corrupt {
			k := rapid.IntRange(0, nkeys-1).Draw(t, "corruptKey")
			var data []byte
			if keyKindOf[k] == cache.CAS {
				data = casData[k]
			} else {
				data = mkValue(k, 1, 5000)
			}
			if err := s.Cache.Put(context.Background(), keyKindOf[k], keyHash[k], int64(len(data)), bytes.NewReader(data)); err == nil {
				for f := range stack.ListFiles(s.Dir) {
					if strings.Contains(f, keyHash[k]) {
						p := filepath.Join(s.Dir, f)
						switch rapid.SampledFrom([]string{"truncate40", "truncate0", "delete", "garbage"}).Draw(t, "damage") {
						case "truncate40":
							os.Truncate(p, 40)
						case "truncate0":
							os.Truncate(p, 0)
						case "delete":
							os.Remove(p)
						default:
							os.WriteFile(p, []byte("garbage garbage garbage garbage garbage garbage"), 0o644)
						}
					}
				}
				corruptKeys[cache.LookupKey(keyKindOf[k], keyHash[k])] = true
			}
		}
		// AC values that the validated lookup can use: ActionResults referencing absent CAS blobs (fail-fast path)
		depMiss := &pb.ActionResult{ExecutionMetadata: &pb.ExecutedActionMetadata{Worker: "w"}}
		for i := 0; i < 15; i++ {
			d := gen.Expand(uint64(9000+i), 20, "rand")
			depMiss.OutputFiles = append(depMiss.OutputFiles, &pb.OutputFile{Path: fmt.Sprint("f", i), Digest: &pb.Digest{Hash: gen.SHA(d), SizeBytes: 20}})
		}
		depMissBytes, _ := proto.Marshal(depMiss)
		depKey := gen.SHA([]byte("dep-miss"))
		_ = s.Cache.Put(context.Background(), cache.AC, depKey, int64(len(depMissBytes)), bytes.NewReader(depMissBytes))

		valSeq := atomic.Int32{}
		valSeq.Store(1)
		var wl [][]wop
		mix := map[string]int{}
		for w := 0; w < nworkers; w++ {
			var ops []wop
			for i := 0; i < nops; i++ {
				kind := rapid.SampledFrom([]string{"put", "put", "get", "get", "get", "getz", "getz", "contains", "findmissing", "filler", "vac"}).Draw(t, "op")
				if kind == "filler" && !tight {
					kind = "get"
				}
				if kind == "vac" && !withBackend {
					kind = "contains"
				}
				mix[kind]++
				ops = append(ops, wop{kind: kind, key: rapid.IntRange(0, nkeys-1).Draw(t, "key"), size: rapid.SampledFrom([]int{1, 9, 100, 4096, 5000, 30000}).Draw(t, "size"), known: rapid.Bool().Draw(t, "sizeKnown")})
			}
			wl = append(wl, ops)
		}
		h := &history{}
		sizes := map[string]map[int]int{}
		var smu sync.Mutex
		var wg sync.WaitGroup
		start := make(chan struct{})
		for w := 0; w < nworkers; w++ {
			wg.Add(1)
			go func(ops []wop, w int) {
				defer wg.Done()
				<-start
				for i, op := range ops {
					kind, hash := keyKindOf[op.key], keyHash[op.key]
					key := cache.LookupKey(kind, hash)
					switch op.kind {
					case "put":
						var data []byte
						id := 0
						if kind == cache.CAS {
							data, id = casData[op.key], 1000+op.key
						} else {
							id = int(valSeq.Add(1))
							sz := op.size
							if tight && sz > int(maxSize/3) {
								sz = int(maxSize / 3)
							}
							data = mkValue(op.key, id, sz)
						}
						smu.Lock()
						if sizes[key] == nil {
							sizes[key] = map[int]int{}
						}
						sizes[key][id] = len(data)
						smu.Unlock()
						e := event{op: "put", key: key, val: id, inv: h.tick()}
						err := s.Cache.Put(context.Background(), kind, hash, int64(len(data)), &slowReader{data: data, step: 1 + len(data)/3})
						e.res, e.ok = h.tick(), err == nil
						e.detail = fmt.Sprintf("len=%d err=%v", len(data), err)
						h.add(e)
					case "get":
						size := int64(-1)
						if op.known && kind == cache.CAS {
							size = int64(len(casData[op.key]))
						}
						e := event{op: "get", key: key, inv: h.tick(), val: -1}
						rc, fs, err := s.Cache.Get(context.Background(), kind, hash, size, 0)
						if rc != nil && err == nil {
							// stream in slices so that overwrites / evictions overlap the read
							var buf bytes.Buffer
							// (at most ~500 slices per stream: 2-byte slices of a 1 MiB blob,
							// each followed by a sleep, take minutes on a busy machine)
							tmp := make([]byte, max(1+op.size, int(fs/512)+1))
							var rerr error
							for {
								n, er := rc.Read(tmp)
								buf.Write(tmp[:n])
								if er != nil {
									if er != io.EOF {
										rerr = er
									}
									break
								}
								if buf.Len()%3 == 0 {
									time.Sleep(time.Microsecond)
								}
							}
							rc.Close()
							e.ok = true
							e.val = decodeValue(op.key, buf.Bytes())
							if rerr != nil || fs != int64(buf.Len()) {
								e.val = -2
							}
							e.detail = fmt.Sprintf("len=%d reported=%d readerr=%v", buf.Len(), fs, rerr)
						} else if rc != nil {
							rc.Close()
						}
						e.res = h.tick()
						h.add(e)
					case "getz":
						// the zstd form of a CAS blob (compressed-blobs reads, Accept-Encoding:
						// zstd): each stream must decode, with both decoders, to the blob
						if kind != cache.CAS {
							continue
						}
						e := event{op: "get", key: key, inv: h.tick(), val: -1}
						rc, _, err := s.Cache.GetZstd(context.Background(), hash, int64(len(casData[op.key])), 0)
						if rc != nil && err == nil {
							var buf bytes.Buffer
							tmp := make([]byte, max(1+op.size, len(casData[op.key])/512+1))
							var rerr error
							for first := true; ; first = false {
								n, er := rc.Read(tmp[:map[bool]int{true: 1, false: len(tmp)}[first]])
								if first && er == nil {
									// a client that is slow to take the rest: the server side sits in
									// the middle (for small blobs: at the final flush) of its stream
									// while other requests start and finish
									time.Sleep(time.Duration(50+op.size%400) * time.Microsecond)
								}
								buf.Write(tmp[:n])
								if er != nil {
									if er != io.EOF {
										rerr = er
									}
									break
								}
								if buf.Len()%3 == 0 {
									time.Sleep(time.Microsecond)
								}
							}
							rc.Close()
							e.ok = true
							dec, derr := gen.DecodeBoth(buf.Bytes())
							e.val = decodeValue(op.key, dec)
							if rerr != nil || derr != nil {
								e.val = -2
							}
							e.detail = fmt.Sprintf("len=%d zstd-stream=%d bytes readerr=%v decode=%v", len(dec), buf.Len(), rerr, derr)
						} else if rc != nil {
							rc.Close()
						}
						e.res = h.tick()
						h.add(e)
					case "contains":
						e := event{op: "contains", key: key, inv: h.tick()}
						e.ok, _ = s.Cache.Contains(context.Background(), kind, hash, -1)
						e.res = h.tick()
						h.add(e)
					case "findmissing":
						var ds []*pb.Digest
						for k := 0; k < nkeys; k++ {
							if keyKindOf[k] == cache.CAS {
								ds = append(ds, &pb.Digest{Hash: keyHash[k], SizeBytes: int64(len(casData[k]))})
							}
						}
						_, _ = s.Cache.FindMissingCasBlobs(context.Background(), ds)
					case "filler":
						d := mkValue(99, 5000+w*100+i, int(maxSize/5))
						_ = s.Cache.Put(context.Background(), cache.CAS, gen.SHA(d), int64(len(d)), bytes.NewReader(d))
					case "vac":
						_, _, _ = s.Cache.GetValidatedActionResult(context.Background(), depKey)
					}
				}
			}(wl[w], w)
		}
		close(start)
		done := make(chan struct{})
		go func() { wg.Wait(); close(done) }()
		select {
		case <-done:
		case <-time.After(map[bool]time.Duration{false: 300 * time.Second, true: 1200 * time.Second}[race]): // (the race detector slows everything ~10x)
			// The workers are still running: this directory must not be reused
			// (rapid re-runs the case to confirm a failure; the stragglers'
			// uploads would appear in the re-run's directory as orphans).
			s.Abandon()
			gs := stack.GoroutinesWith("cache/disk.")
			fmt.Println("VERIF-INFRA? workload did not finish in time")
			t.Fatalf("workload did not finish within 300 s / 1200 s under the race detector (deadlock?): goroutines in cache/disk:\n%s", strings.Join(gs, "\n\n"))
		}
		if px != nil {
			px.Wait()
		}
		// read-back after the last response: what was acknowledged must be there
		for k := 0; k < nkeys; k++ {
			e := event{op: "contains", key: cache.LookupKey(keyKindOf[k], keyHash[k]), inv: h.tick(), detail: "(read-back)"}
			e.ok, _ = s.Cache.Contains(context.Background(), keyKindOf[k], keyHash[k], -1)
			e.res = h.tick()
			h.add(e)
		}
		evs := h.events
		overlap := false
		byKey := map[string][]event{}
		for _, e := range evs {
			byKey[e.key] = append(byKey[e.key], e)
		}
		for _, l := range byKey {
			for i := range l {
				for j := i + 1; j < len(l); j++ {
					if l[i].inv < l[j].res && l[j].inv < l[i].res {
						overlap = true
					}
				}
			}
		}
		E.Case(fmt.Sprintf("free|%d|%s|%v|%v|%v|%v", nworkers, storage, tight, withBackend, corrupt, mixClass(mix)), overlap, "engine=free", "mode="+storage, fmt.Sprintf("tight=%v", tight), fmt.Sprintf("backend=%v", withBackend), fmt.Sprintf("corrupt=%v", corrupt), fmt.Sprintf("overlap=%v", overlap), fmt.Sprintf("race=%v", race))
		E.LabelN("events", int64(len(evs)))
		E.Sample(fmt.Sprintf("free/%v%v%v", tight, withBackend, corrupt), map[string]any{"workers": nworkers, "ops_per_worker": nops, "keys": nkeys, "storage": storage, "tight": tight, "backend": withBackend, "corrupt_file": corrupt, "events": len(evs)})
		ctxs := fmt.Sprintf("workers=%d keys=%d storage=%s tight=%v backend=%v corrupt=%v", nworkers, nkeys, storage, tight, withBackend, corrupt)
		if err := checkHistory(evs, !tight, withBackend, sizes, corruptKeys); err != nil {
			t.Fatalf("%v\n%s\nhistory:\n%s", err, ctxs, fmtHistory(evs))
		}
		if err := inv.SettledAccounting(s, maxSize, 3*time.Second); err != nil {
			t.Fatalf("at quiescence: %v\n%s\nhistory:\n%s", err, ctxs, fmtHistory(evs))
		}
		if err := inv.DirEqualsIndex(s); err != nil {
			// the file the harness itself damaged stays damaged until somebody reads it
			excused := corrupt
			for _, part := range strings.Split(strings.TrimPrefix(err.Error(), "directory != index: "), "; ") {
				mine := false
				for ck := range corruptKeys {
					if strings.Contains(part, ck[strings.IndexByte(ck, '/')+1:]) {
						mine = true
					}
				}
				if !mine {
					excused = false
				}
			}
			if !excused {
				t.Fatalf("at quiescence: %v\n%s\nhistory:\n%s", err, ctxs, fmtHistory(evs))
			}
		}
	})
}

func mixClass(m map[string]int) string {
	var ks []string
	for k, v := range m {
		if v > 0 {
			ks = append(ks, k)
		}
	}
	sort.Strings(ks)
	return strings.Join(ks, "+")
}

var _ = casfmt.Magic
var _ = disk.VerifDir
