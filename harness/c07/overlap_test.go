package c07

import (
	"bytes"
	"context"
	"fmt"
	"io"
	"runtime"
	"sync"
	"testing"
	"time"

	"github.com/buchgr/bazel-remote/v2/cache"
	"pgregory.net/rapid"

	"verif/harness/internal/gen"
	"verif/harness/internal/rt"
	"verif/harness/internal/stack"
)

// TestC07OverlappingStreams: many overlapping streaming reads of a few CAS
// blobs in every (storage mode, requested encoding, zstd implementation)
// combination, with consumers that stall after the first byte - i.e. with
// the server side of several requests parked inside its stream (re-compressing
// or decompressing through pooled encoder / decoder objects) while others
// start and finish. Oracle: whole values - every stream is complete and
// (after decoding with both decoders) equal to the blob of ITS key.
func TestC07OverlappingStreams(t *testing.T) {
	rt.Check(t, rt.N(40, 400), func(t *rapid.T) {
		storage := rapid.SampledFrom([]string{"zstd", "uncompressed", "uncompressed"}).Draw(t, "storage")
		codec := rapid.SampledFrom([]string{"go", "go", "cgo"}).Draw(t, "codec")
		procs := rapid.SampledFrom([]int{1, 2, 4}).Draw(t, "gomaxprocs")
		defer runtime.GOMAXPROCS(runtime.GOMAXPROCS(procs))
		s, err := stack.New(stack.Opts{Storage: storage, Zstd: codec, NoServers: true})
		if err != nil {
			t.Fatal(err)
		}
		defer s.Close()
		nblobs := rapid.IntRange(2, 4).Draw(t, "nblobs")
		var blobs [][]byte
		for i := 0; i < nblobs; i++ {
			d := gen.Expand(uint64(i)+77, rapid.SampledFrom([]int{1, 1000, 50000, 200000, gen.MiB + 17}).Draw(t, "size"), rapid.SampledFrom([]string{"rand", "text"}).Draw(t, "content"))
			blobs = append(blobs, d)
			if err := s.Cache.Put(context.Background(), cache.CAS, gen.SHA(d), int64(len(d)), bytes.NewReader(d)); err != nil {
				t.Fatal(err)
			}
		}
		nreaders := rapid.IntRange(2, 8).Draw(t, "readers")
		rounds := rapid.IntRange(2, 12).Draw(t, "rounds")
		type plan struct {
			blob  int
			z     bool
			stall time.Duration
		}
		plans := make([][]plan, nreaders)
		zreads := 0
		for r := range plans {
			for i := 0; i < rounds; i++ {
				p := plan{blob: rapid.IntRange(0, nblobs-1).Draw(t, "blob"), z: rapid.IntRange(0, 3).Draw(t, "zstd") > 0, stall: time.Duration(rapid.IntRange(0, 400).Draw(t, "stallMicros")) * time.Microsecond}
				if p.z {
					zreads++
				}
				plans[r] = append(plans[r], p)
			}
		}
		E.Case(fmt.Sprintf("overlap|%s|%s|%d|%d|%d", storage, codec, procs, nreaders, nblobs), nreaders >= 2 && zreads >= 2, "engine=overlap", "overlap-mode="+storage+"/"+codec, fmt.Sprintf("overlap-procs=%d", procs))
		E.Sample("overlap/"+storage, map[string]any{"storage": storage, "codec": codec, "gomaxprocs": procs, "readers": nreaders, "reads_per_reader": rounds, "zstd_reads": zreads, "blob_sizes": func() (l []int) {
			for _, b := range blobs {
				l = append(l, len(b))
			}
			return
		}()})
		var wg sync.WaitGroup
		var mu sync.Mutex
		var problems []string
		for r := range plans {
			wg.Add(1)
			go func(r int) {
				defer wg.Done()
				for i, p := range plans[r] {
					want := blobs[p.blob]
					h := gen.SHA(want)
					var rc io.ReadCloser
					var err error
					if p.z {
						rc, _, err = s.Cache.GetZstd(context.Background(), h, int64(len(want)), 0)
					} else {
						rc, _, err = s.Cache.Get(context.Background(), cache.CAS, h, int64(len(want)), 0)
					}
					if err != nil || rc == nil {
						mu.Lock()
						problems = append(problems, fmt.Sprintf("reader %d read %d: blob %d (%d bytes) not served: %v", r, i, p.blob, len(want), err))
						mu.Unlock()
						if rc != nil {
							rc.Close()
						}
						continue
					}
					first := make([]byte, 1)
					n, er := io.ReadFull(rc, first)
					time.Sleep(p.stall)
					rest, rerr := io.ReadAll(rc)
					rc.Close()
					got := append(first[:n], rest...)
					if er != nil && len(want) > 0 {
						rerr = er
					}
					what := "identity"
					if p.z && rerr == nil {
						what = "zstd"
						var derr error
						got, derr = gen.DecodeBoth(got)
						if derr != nil {
							rerr = fmt.Errorf("stream does not decode: %v", derr)
						}
					}
					if rerr != nil || !bytes.Equal(got, want) {
						mu.Lock()
						problems = append(problems, fmt.Sprintf("reader %d read %d (%s, stalled %v after the first byte): blob %d: got %d bytes, want the %d uploaded ones; error: %v", r, i, what, p.stall, p.blob, len(got), len(want), rerr))
						mu.Unlock()
					}
				}
			}(r)
		}
		done := make(chan struct{})
		go func() { wg.Wait(); close(done) }()
		select {
		case <-done:
		case <-time.After(300 * time.Second):
			s.Abandon()
			fmt.Println("VERIF-INFRA? overlapping readers did not finish in 300s")
			t.Fatalf("overlapping readers did not finish within 300 s")
		}
		if len(problems) > 0 {
			t.Fatalf("a read did not return the whole value of its key (storage=%s codec=%s GOMAXPROCS=%d, %d readers x %d reads):\n%s", storage, codec, procs, nreaders, rounds, problems[0])
		}
	})
}
