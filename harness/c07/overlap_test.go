package c07

import (
	"bytes"
	"context"
	"fmt"
	"io"
	"runtime"
	"sync"
	"testing"
	"time"

	"github.com/buchgr/bazel-remote/v2/cache"
	"github.com/buchgr/bazel-remote/v2/cache/disk"
	pb "github.com/buchgr/bazel-remote/v2/genproto/build/bazel/remote/execution/v2"
	"pgregory.net/rapid"

	"verif/harness/internal/gen"
	"verif/harness/internal/inv"
	"verif/harness/internal/rt"
	"verif/harness/internal/stack"
)

// TestC07OverlappingStreams: many overlapping streaming reads of a few CAS
// blobs in every (storage mode, requested encoding, zstd implementation)
// combination, with consumers that stall after the first byte - i.e. with
// the server side of several requests parked inside its stream (re-compressing
// or decompressing through pooled encoder / decoder objects) while others
// start and finish. Oracle: whole values - every stream is complete and
// (after decoding with both decoders) equal to the blob of ITS key.
func TestC07OverlappingStreams(t *testing.T) {
	rt.Check(t, rt.N(40, 400), func(t *rapid.T) {
		storage := rapid.SampledFrom([]string{"zstd", "uncompressed", "uncompressed"}).Draw(t, "storage")
		codec := rapid.SampledFrom([]string{"go", "go", "cgo"}).Draw(t, "codec")
		procs := rapid.SampledFrom([]int{1, 2, 4}).Draw(t, "gomaxprocs")
		defer runtime.GOMAXPROCS(runtime.GOMAXPROCS(procs))
		s, err := stack.New(stack.Opts{Storage: storage, Zstd: codec, NoServers: true})
		if err != nil {
			t.Fatal(err)
		}
		defer s.Close()
		nblobs := rapid.IntRange(2, 4).Draw(t, "nblobs")
		var blobs [][]byte
		for i := 0; i < nblobs; i++ {
			d := gen.Expand(uint64(i)+77, rapid.SampledFrom([]int{1, 1000, 50000, 200000, gen.MiB + 17}).Draw(t, "size"), rapid.SampledFrom([]string{"rand", "text"}).Draw(t, "content"))
			blobs = append(blobs, d)
			if err := s.Cache.Put(context.Background(), cache.CAS, gen.SHA(d), int64(len(d)), bytes.NewReader(d)); err != nil {
				t.Fatal(err)
			}
		}
		nreaders := rapid.IntRange(2, 8).Draw(t, "readers")
		rounds := rapid.IntRange(2, 12).Draw(t, "rounds")
		type plan struct {
			blob  int
			z     bool
			stall time.Duration
		}
		plans := make([][]plan, nreaders)
		zreads := 0
		for r := range plans {
			for i := 0; i < rounds; i++ {
				p := plan{blob: rapid.IntRange(0, nblobs-1).Draw(t, "blob"), z: rapid.IntRange(0, 3).Draw(t, "zstd") > 0, stall: time.Duration(rapid.IntRange(0, 400).Draw(t, "stallMicros")) * time.Microsecond}
				if p.z {
					zreads++
				}
				plans[r] = append(plans[r], p)
			}
		}
		E.Case(fmt.Sprintf("overlap|%s|%s|%d|%d|%d", storage, codec, procs, nreaders, nblobs), nreaders >= 2 && zreads >= 2, "engine=overlap", "overlap-mode="+storage+"/"+codec, fmt.Sprintf("overlap-procs=%d", procs))
		E.Sample("overlap/"+storage, map[string]any{"storage": storage, "codec": codec, "gomaxprocs": procs, "readers": nreaders, "reads_per_reader": rounds, "zstd_reads": zreads, "blob_sizes": func() (l []int) {
			for _, b := range blobs {
				l = append(l, len(b))
			}
			return
		}()})
		var wg sync.WaitGroup
		var mu sync.Mutex
		var problems []string
		for r := range plans {
			wg.Add(1)
			go func(r int) {
				defer wg.Done()
				for i, p := range plans[r] {
					want := blobs[p.blob]
					h := gen.SHA(want)
					var rc io.ReadCloser
					var err error
					if p.z {
						rc, _, err = s.Cache.GetZstd(context.Background(), h, int64(len(want)), 0)
					} else {
						rc, _, err = s.Cache.Get(context.Background(), cache.CAS, h, int64(len(want)), 0)
					}
					if err != nil || rc == nil {
						mu.Lock()
						problems = append(problems, fmt.Sprintf("reader %d read %d: blob %d (%d bytes) not served: %v", r, i, p.blob, len(want), err))
						mu.Unlock()
						if rc != nil {
							rc.Close()
						}
						continue
					}
					first := make([]byte, 1)
					n, er := io.ReadFull(rc, first)
					time.Sleep(p.stall)
					rest, rerr := io.ReadAll(rc)
					rc.Close()
					got := append(first[:n], rest...)
					if er != nil && len(want) > 0 {
						rerr = er
					}
					what := "identity"
					if p.z && rerr == nil {
						what = "zstd"
						var derr error
						got, derr = gen.DecodeBoth(got)
						if derr != nil {
							rerr = fmt.Errorf("stream does not decode: %v", derr)
						}
					}
					if rerr != nil || !bytes.Equal(got, want) {
						mu.Lock()
						problems = append(problems, fmt.Sprintf("reader %d read %d (%s, stalled %v after the first byte): blob %d: got %d bytes, want the %d uploaded ones; error: %v", r, i, what, p.stall, p.blob, len(got), len(want), rerr))
						mu.Unlock()
					}
				}
			}(r)
		}
		done := make(chan struct{})
		go func() { wg.Wait(); close(done) }()
		select {
		case <-done:
		case <-time.After(300 * time.Second):
			s.Abandon()
			fmt.Println("VERIF-INFRA? overlapping readers did not finish in 300s")
			t.Fatalf("overlapping readers did not finish within 300 s")
		}
		if len(problems) > 0 {
			t.Fatalf("a read did not return the whole value of its key (storage=%s codec=%s GOMAXPROCS=%d, %d readers x %d reads):\n%s", storage, codec, procs, nreaders, rounds, problems[0])
		}
	})
}

// TestC07LookupStorm: many goroutines doing nothing but existence checks and
// reads (operations that look read-only but promote entries in the recency
// list) plus a few uploads, on a handful of keys. Run under the race
// detector in both tiers; without it the index is inspected afterwards
// (list length = map size, accounting).
func TestC07LookupStorm(t *testing.T) {
	rt.Check(t, rt.N(6, 60), func(t *rapid.T) {
		storage := rapid.SampledFrom([]string{"zstd", "uncompressed"}).Draw(t, "storage")
		s, err := stack.New(stack.Opts{Storage: storage, NoServers: true})
		if err != nil {
			t.Fatal(err)
		}
		defer s.Close()
		nkeys := rapid.IntRange(4, 40).Draw(t, "keys")
		var blobs [][]byte
		var ds []*pb.Digest
		for i := 0; i < nkeys; i++ {
			d := gen.Expand(uint64(i)+300, 10+i, "rand")
			blobs = append(blobs, d)
			ds = append(ds, &pb.Digest{Hash: gen.SHA(d), SizeBytes: int64(len(d))})
			if err := s.Cache.Put(context.Background(), cache.CAS, gen.SHA(d), int64(len(d)), bytes.NewReader(d)); err != nil {
				t.Fatal(err)
			}
		}
		workers := rapid.IntRange(2, 8).Draw(t, "workers")
		rounds := rapid.IntRange(20, 200).Draw(t, "rounds")
		mix := rapid.SampledFrom([]string{"contains", "findmissing", "contains+findmissing", "all"}).Draw(t, "mix")
		E.Case(fmt.Sprintf("storm|%s|%d|%d|%s", storage, workers, nkeys, mix), true, "engine=lookup-storm", "storm-mix="+mix)
		var wg sync.WaitGroup
		for w := 0; w < workers; w++ {
			wg.Add(1)
			go func(w int) {
				defer wg.Done()
				for i := 0; i < rounds; i++ {
					k := (w*7 + i*3) % nkeys
					h := ds[k].Hash
					switch {
					case mix == "findmissing" || (mix != "contains" && i%3 == 1):
						cp := make([]*pb.Digest, 0, len(ds))
						for j := range ds {
							cp = append(cp, &pb.Digest{Hash: ds[(j+k)%nkeys].Hash, SizeBytes: ds[(j+k)%nkeys].SizeBytes})
						}
						_, _ = s.Cache.FindMissingCasBlobs(context.Background(), cp)
					case mix == "all" && i%5 == 2:
						rc, _, _ := s.Cache.Get(context.Background(), cache.CAS, h, -1, 0)
						if rc != nil {
							_, _ = io.Copy(io.Discard, rc)
							rc.Close()
						}
					case mix == "all" && i%11 == 3:
						_ = s.Cache.Put(context.Background(), cache.CAS, h, int64(len(blobs[k])), bytes.NewReader(blobs[k]))
					default:
						_, _ = s.Cache.Contains(context.Background(), cache.CAS, h, -1)
					}
				}
			}(w)
		}
		done := make(chan struct{})
		go func() { wg.Wait(); close(done) }()
		select {
		case <-done:
		case <-time.After(300 * time.Second):
			s.Abandon()
			fmt.Println("VERIF-INFRA? lookup storm did not finish in 300s")
			t.Fatalf("lookup storm did not finish within 300 s")
		}
		if err := inv.SettledAccounting(s, 0, 3*time.Second); err != nil {
			t.Fatalf("after %d goroutines x %d lookups (%s) on %d keys: %v", workers, rounds, mix, nkeys, err)
		}
		if n := disk.VerifIndexMapLen(s.Cache); n != nkeys {
			t.Fatalf("after the lookup storm the index holds %d keys, %d were uploaded and nothing was evicted", n, nkeys)
		}
		for k := range ds {
			if ok, _ := s.Cache.Contains(context.Background(), cache.CAS, ds[k].Hash, ds[k].SizeBytes); !ok {
				t.Fatalf("after the lookup storm blob %d is reported absent", k)
			}
		}
	})
}
