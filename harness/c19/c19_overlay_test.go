//go:build verif_overlay

package config

// This file is compiled INTO the repository's config package by the driver
// (go test -c -overlay, nothing in /repo is touched) so that the unexported
// front end get() can be reached without the logger / proxy / TLS / metrics
// side effects of the exported Get. It is self-contained: it cannot import
// the harness module, so it carries a minimal evidence writer.

import (
	"crypto/sha256"
	"encoding/hex"
	"encoding/json"
	"flag"
	"fmt"
	"hash/fnv"
	"io"
	"os"
	"reflect"
	"sort"
	"strconv"
	"strings"
	"testing"
	"time"

	"github.com/buchgr/bazel-remote/v2/utils/flags"
	"github.com/urfave/cli/v2"
	"pgregory.net/rapid"
)

// ---------------------------------------------------------------- evidence (minimal copy)

type evc struct {
	evals    int64
	fps      map[string]struct{}
	labels   map[string]int64
	samples  []any
	skeys    map[string]bool
	known    map[string]string
	hits     map[string]int64
	excluded int64
	start    time.Time
}

var E = &evc{fps: map[string]struct{}{}, labels: map[string]int64{}, skeys: map[string]bool{}, known: map[string]string{}, hits: map[string]int64{}, start: time.Now()}

func (e *evc) Case(fp string, nontrivial bool, labels ...string) {
	e.evals++
	if nontrivial {
		h := sha256.Sum256([]byte(fp))
		e.fps[hex.EncodeToString(h[:8])] = struct{}{}
	}
	for _, l := range labels {
		e.labels[l]++
	}
}
func (e *evc) Sample(class string, v any) {
	if len(e.samples) < 8 && !e.skeys[class] {
		e.skeys[class] = true
		e.samples = append(e.samples, map[string]any{"class": class, "case": v})
	}
}
func (e *evc) flush() {
	out := os.Getenv("VERIF_EV_OUT")
	if out == "" {
		return
	}
	var fps []string
	for k := range e.fps {
		fps = append(fps, k)
	}
	sort.Strings(fps)
	b, _ := json.Marshal(map[string]any{"id": "C19", "evaluations": e.evals, "nontrivial_fps": fps, "labels": e.labels, "samples": e.samples,
		"known_hits": e.hits, "known_desc": map[string]string{}, "excluded_known": e.excluded, "notes": map[string]int64{}, "assumptions": []string{
			"ldap.cache_time is outside the domain: at the pinned commit it has no pair of renderings with the same meaning (IntFlag read as Duration; README's YAML form unparsable)",
			"defaults of omitted listener addresses differ by design and are not compared",
		},
		"rule": "rapid draws a set of explicitly given settings (every scalar flag documented in the README, TLS/htpasswd paths, each proxy block with all its fields, the LDAP block without cache_time, the deprecated host/port forms with all parts explicit), valid by construction, optionally plus one invalid class (missing dir / max_size, unknown storage mode or codec, same TCP port, half TLS, mTLS without server certificate, unauthenticated reads without authentication, two proxy backends, non-positive blob limits, malformed listener addresses); rendered (a) as argv and environment variables (split drawn per setting; flags override env) through a cli.App built from flags.GetCliFlags() into config.get and (b) as a YAML document into config.NewFromYaml. Oracle: both routes fail, or both succeed with reflect.DeepEqual effective configurations (after normalising the deprecated s3.key_version pointer, 'hard limit off' and listener addresses that were not given); every invalid class fails on both. non-trivial: >= 4 explicit settings or an invalid class; distinct by (set of setting names, invalid class)",
		"wall_s": time.Since(e.start).Seconds()})
	_ = os.WriteFile(out, b, 0o644)
}

func envInt(name string, d int64) int64 {
	if v, err := strconv.ParseInt(os.Getenv(name), 10, 64); err == nil {
		return v
	}
	return d
}

func TestMain(m *testing.M) {
	code := m.Run()
	E.flush()
	if code != 0 {
		fmt.Println("VERIF-TEST-EXIT", code)
	}
	os.Exit(code)
}

func runRapid(t *testing.T, quick, thorough int, prop func(*rapid.T)) {
	n := quick
	if os.Getenv("VERIF_TIER") == "thorough" {
		n = thorough
	}
	h := fnv.New64a()
	h.Write([]byte(t.Name()))
	seed := uint64(envInt("VERIF_SEED", 1))*1000003 + uint64(envInt("VERIF_SHARD", 0))*7919 + h.Sum64()%1000
	_ = flag.Set("rapid.checks", strconv.Itoa(n))
	_ = flag.Set("rapid.seed", strconv.FormatUint(seed&0x7fffffffffffffff|1, 10))
	_ = flag.Set("rapid.failfile", "")
	if rp := os.Getenv("VERIF_REPLAY"); rp != "" {
		_ = flag.Set("rapid.failfile", rp)
	}
	rapid.Check(t, prop)
}

// ---------------------------------------------------------------- settings

type setting struct {
	flag  string // flag name (also the env var's owner)
	env   string
	yaml  []string // key path in the YAML document
	value string   // textual value (same text in every syntax)
	quote bool     // YAML string that needs quoting
}

var envOf = map[string]string{}

func init() {
	for _, f := range flags.GetCliFlags() {
		names := f.Names()
		rv := reflect.ValueOf(f).Elem().FieldByName("EnvVars")
		if rv.IsValid() && rv.Len() > 0 {
			envOf[names[0]] = rv.Index(0).String()
		}
	}
}

func mk(flagName string, yamlPath string, value string, quote bool) setting {
	return setting{flag: flagName, env: envOf[flagName], yaml: strings.Split(yamlPath, "."), value: value, quote: quote}
}

type drawn struct {
	settings []setting
	invalid  string
}

func pick[T any](t *rapid.T, label string, xs ...T) T { return rapid.SampledFrom(xs).Draw(t, label) }

func drawSettings(t *rapid.T) drawn {
	var ss []setting
	add := func(s setting) { ss = append(ss, s) }
	has := func(label string, pct int) bool { return rapid.IntRange(0, 99).Draw(t, label) < pct }
	invalid := "none"
	if has("invalid?", 35) {
		invalid = pick(t, "invalidClass", "missing-dir", "missing-max-size", "zero-max-size", "bad-storage-mode", "bad-zstd-impl", "same-port", "tls-cert-only", "tls-key-only", "mtls-without-server-cert", "unauth-reads-without-auth", "two-proxies", "zero-max-blob-size", "negative-max-proxy-blob-size", "bad-http-address", "bad-grpc-address", "empty-unix-socket")
	}
	if invalid != "missing-dir" {
		add(mk("dir", "dir", pick(t, "dir", "/tmp/cache", "/data/bazel remote", "relative/dir", "/ünï"), true))
	}
	switch invalid {
	case "missing-max-size":
	case "zero-max-size":
		add(mk("max_size", "max_size", pick(t, "badMax", "0", "-3"), false))
	default:
		add(mk("max_size", "max_size", strconv.Itoa(rapid.IntRange(1, 5000).Draw(t, "max_size")), false))
	}
	if has("hardlimit", 25) {
		add(mk("max_size_hard_limit", "max_size_hard_limit", strconv.Itoa(rapid.IntRange(1, 9000).Draw(t, "hl")), false))
	}
	if invalid == "bad-storage-mode" {
		add(mk("storage_mode", "storage_mode", pick(t, "badMode", "gzip", "ZSTD", "none"), true))
	} else if has("mode", 40) {
		add(mk("storage_mode", "storage_mode", pick(t, "mode", "zstd", "uncompressed"), false))
	}
	if invalid == "bad-zstd-impl" {
		add(mk("zstd_implementation", "zstd_implementation", pick(t, "badImpl", "rust", "GO", "c"), true))
	} else if has("impl", 30) {
		add(mk("zstd_implementation", "zstd_implementation", pick(t, "impl", "go", "cgo"), false))
	}
	// listeners
	httpPort, grpcPort := 8080, 9092
	listener := pick(t, "listenerStyle", "address", "address", "deprecated", "default")
	if invalid == "same-port" || strings.HasPrefix(invalid, "bad-") && strings.HasSuffix(invalid, "address") || invalid == "empty-unix-socket" {
		listener = "address"
	}
	grpcNone := false
	switch listener {
	case "address":
		httpPort = rapid.IntRange(1024, 60000).Draw(t, "httpPort")
		ha := pick(t, "httpHost", "0.0.0.0", "127.0.0.1", "", "[::1]", "localhost") + ":" + strconv.Itoa(httpPort)
		if has("httpUnix", 15) {
			ha = "unix:///tmp/http.sock"
			httpPort = -1
		}
		if invalid == "bad-http-address" {
			ha = pick(t, "badHTTP", "localhost", "8080", "1.2.3.4:80:90", "host:port:")
		}
		if invalid == "empty-unix-socket" {
			ha = "unix://"
		}
		add(mk("http_address", "http_address", ha, true))
		grpcPort = rapid.IntRange(1024, 60000).Draw(t, "grpcPort")
		if grpcPort == httpPort {
			grpcPort++
		}
		if invalid == "same-port" {
			if httpPort < 0 {
				httpPort = 8080
				ss[len(ss)-1] = mk("http_address", "http_address", "0.0.0.0:8080", true)
			}
			grpcPort = httpPort
		}
		ga := pick(t, "grpcHost", "0.0.0.0", "", "127.0.0.1") + ":" + strconv.Itoa(grpcPort)
		switch {
		case invalid == "bad-grpc-address":
			ga = pick(t, "badGRPC", "localhost", "9092", "a:b:c")
		case invalid == "same-port":
		case has("grpcNone", 12):
			ga, grpcNone = "none", true
		case has("grpcUnix", 12):
			ga = "unix:///tmp/grpc.sock"
		}
		add(mk("grpc_address", "grpc_address", ga, true))
	case "deprecated":
		// all parts explicit, as the statement requires for the deprecated forms
		add(mk("host", "host", pick(t, "host", "0.0.0.0", "127.0.0.1", "192.168.7.7", "localhost"), true))
		httpPort = rapid.IntRange(1024, 60000).Draw(t, "port")
		grpcPort = httpPort + 1 + rapid.IntRange(0, 100).Draw(t, "gp")
		add(mk("port", "port", strconv.Itoa(httpPort), false))
		add(mk("grpc_port", "grpc_port", strconv.Itoa(grpcPort), false))
	}
	switch pick(t, "profileStyle", "none", "none", "address", "deprecated", "off", "off+deprecated", "address+deprecated") {
	case "off+deprecated":
		// an explicit "none" next to the deprecated host/port pair
		add(mk("profile_address", "profile_address", "none", true))
		add(mk("profile_port", "profile_port", strconv.Itoa(rapid.IntRange(1024, 60000).Draw(t, "profPort")), false))
		if rapid.Bool().Draw(t, "withProfHost") {
			add(mk("profile_host", "profile_host", pick(t, "profHost", "127.0.0.1", "10.0.0.1", "localhost"), true))
		}
	case "address+deprecated":
		add(mk("profile_address", "profile_address", pick(t, "profAddr", "127.0.0.1:6060", ":6061"), true))
		add(mk("profile_port", "profile_port", strconv.Itoa(rapid.IntRange(1024, 60000).Draw(t, "profPort")), false))
	case "address":
		add(mk("profile_address", "profile_address", pick(t, "profAddr", "127.0.0.1:6060", ":6061", "unix:///tmp/p.sock"), true))
	case "off":
		add(mk("profile_address", "profile_address", "none", true))
	case "deprecated":
		add(mk("profile_host", "profile_host", pick(t, "profHost", "127.0.0.1", "10.0.0.1", "localhost"), true))
		add(mk("profile_port", "profile_port", strconv.Itoa(rapid.IntRange(1024, 60000).Draw(t, "profPort")), false))
	}
	// auth / TLS
	auth := pick(t, "auth", "none", "none", "htpasswd", "mtls", "tls-only", "ldap")
	switch invalid {
	case "tls-cert-only":
		auth = "none"
		add(mk("tls_cert_file", "tls_cert_file", "/etc/tls/server.crt", true))
	case "tls-key-only":
		auth = "none"
		add(mk("tls_key_file", "tls_key_file", "/etc/tls/server.key", true))
	case "mtls-without-server-cert":
		auth = "none"
		add(mk("tls_ca_file", "tls_ca_file", "/etc/tls/ca.crt", true))
	case "unauth-reads-without-auth":
		auth = pick(t, "noauthKind", "none", "tls-only")
	}
	switch auth {
	case "htpasswd":
		add(mk("htpasswd_file", "htpasswd_file", "/etc/bazel-remote/.htpasswd", true))
	case "mtls":
		add(mk("tls_ca_file", "tls_ca_file", "/etc/tls/ca.crt", true))
		add(mk("tls_cert_file", "tls_cert_file", "/etc/tls/server.crt", true))
		add(mk("tls_key_file", "tls_key_file", "/etc/tls/server.key", true))
	case "tls-only":
		add(mk("tls_cert_file", "tls_cert_file", "/etc/tls/server.crt", true))
		add(mk("tls_key_file", "tls_key_file", "/etc/tls/server.key", true))
	case "ldap":
		add(mk("ldap.url", "ldap.url", "ldaps://ldap.example.com:636", true))
		add(mk("ldap.base_dn", "ldap.base_dn", "OU=users,DC=example,DC=com", true))
		add(mk("ldap.bind_user", "ldap.bind_user", "cn=reader", true))
		add(mk("ldap.bind_password", "ldap.bind_password", "s3cr3t: yes", true))
		add(mk("ldap.username_attribute", "ldap.username_attribute", pick(t, "ldapAttr", "uid", "sAMAccountName"), true))
		add(mk("ldap.groups_query", "ldap.groups_query", "(|(memberOf=CN=a)(memberOf=CN=b))", true))
	}
	if auth != "none" && auth != "tls-only" || invalid == "unauth-reads-without-auth" {
		if invalid == "unauth-reads-without-auth" || has("unauthReads", 40) {
			add(mk("allow_unauthenticated_reads", "allow_unauthenticated_reads", "true", false))
		}
	}
	if has("mintls", 20) {
		add(mk("min_tls_version", "min_tls_version", pick(t, "mintls", "1.0", "1.1", "1.2", "1.3"), true))
	}
	// proxies
	var proxies []string
	all := []string{"s3", "azblob", "gcs", "http", "grpc"}
	if invalid == "two-proxies" {
		i := rapid.IntRange(0, 4).Draw(t, "p1")
		j := (i + 1 + rapid.IntRange(0, 3).Draw(t, "p2")) % 5
		proxies = []string{all[i], all[j]}
	} else if has("proxy", 45) {
		proxies = []string{pick(t, "proxyKind", all...)}
	}
	for _, p := range proxies {
		switch p {
		case "s3":
			add(mk("s3.endpoint", "s3_proxy.endpoint", "minio.example.com:9000", true))
			add(mk("s3.bucket", "s3_proxy.bucket", "bazel-cache", true))
			add(mk("s3.bucket_lookup_type", "s3_proxy.bucket_lookup_type", pick(t, "lookup", "auto", "dns", "path"), true))
			add(mk("s3.prefix", "s3_proxy.prefix", pick(t, "s3prefix", "pre", "a/b"), true))
			add(mk("s3.auth_method", "s3_proxy.auth_method", pick(t, "s3auth", "access_key", "iam_role", "aws_credentials_file"), true))
			add(mk("s3.access_key_id", "s3_proxy.access_key_id", "AKIA123", true))
			add(mk("s3.secret_access_key", "s3_proxy.secret_access_key", "sec/ret+key", true))
			add(mk("s3.session_token", "s3_proxy.session_token", "tok", true))
			add(mk("s3.signature_type", "s3_proxy.signature_type", pick(t, "sig", "v2", "v4", "v4streaming", "anonymous"), true))
			add(mk("s3.disable_ssl", "s3_proxy.disable_ssl", pick(t, "s3ssl", "true", "false"), false))
			add(mk("s3.update_timestamps", "s3_proxy.update_timestamps", pick(t, "s3ts", "true", "false"), false))
			add(mk("s3.iam_role_endpoint", "s3_proxy.iam_role_endpoint", "http://169.254.169.254", true))
			add(mk("s3.region", "s3_proxy.region", "eu-north-1", true))
			add(mk("s3.aws_profile", "s3_proxy.aws_profile", "prof", true))
			add(mk("s3.aws_shared_credentials_file", "s3_proxy.aws_shared_credentials_file", "/home/u/.aws/credentials", true))
			add(mk("s3.max_idle_conns", "s3_proxy.max_idle_conns", strconv.Itoa(rapid.IntRange(1, 500).Draw(t, "idle")), false))
		case "azblob":
			add(mk("azblob.tenant_id", "azblob_proxy.tenant_id", "tenant-1", true))
			add(mk("azblob.storage_account", "azblob_proxy.storage_account", "acct", true))
			add(mk("azblob.container_name", "azblob_proxy.container_name", "cont", true))
			add(mk("azblob.prefix", "azblob_proxy.prefix", "pfx", true))
			add(mk("azblob.update_timestamps", "azblob_proxy.update_timestamps", pick(t, "azts", "true", "false"), false))
			add(mk("azblob.auth_method", "azblob_proxy.auth_method", pick(t, "azauth", "client_certificate", "client_secret", "environment_credential", "shared_key", "default"), true))
			add(mk("azblob.shared_key", "azblob_proxy.shared_key", "c2hhcmVk", true))
			add(mk("azblob.client_id", "azblob_proxy.client_id", "cid", true))
			add(mk("azblob.client_secret", "azblob_proxy.client_secret", "csecret", true))
			add(mk("azblob.cert_path", "azblob_proxy.cert_path", "/etc/az/cert.pem", true))
		case "gcs":
			add(mk("gcs_proxy.bucket", "gcs_proxy.bucket", "gcs-bucket", true))
			add(mk("gcs_proxy.use_default_credentials", "gcs_proxy.use_default_credentials", pick(t, "gcsdef", "true", "false"), false))
			add(mk("gcs_proxy.json_credentials_file", "gcs_proxy.json_credentials_file", "/etc/gcs.json", true))
		case "http", "grpc":
			scheme := p
			tlsFiles := has("proxyTLS", 40)
			if tlsFiles {
				scheme += "s"
			}
			add(mk(p+"_proxy.url", p+"_proxy.url", scheme+"://backend.example.com:8443/"+pick(t, "proxyPath", "", "cache", "a/b"), true))
			if tlsFiles {
				add(mk(p+"_proxy.key_file", p+"_proxy.key_file", "/etc/proxy/key.pem", true))
				add(mk(p+"_proxy.cert_file", p+"_proxy.cert_file", "/etc/proxy/cert.pem", true))
				add(mk(p+"_proxy.ca_file", p+"_proxy.ca_file", "/etc/proxy/ca.pem", true))
			}
		}
	}
	// remaining scalars
	dur := func() string { return pick(t, "dur", "30s", "5m", "1h30m", "0s", "250ms") }
	if has("rt", 20) {
		add(mk("http_read_timeout", "http_read_timeout", dur(), true))
	}
	if has("wt", 20) {
		add(mk("http_write_timeout", "http_write_timeout", dur(), true))
	}
	if has("idle", 20) {
		add(mk("idle_timeout", "idle_timeout", dur(), true))
	}
	if has("mq", 20) {
		add(mk("max_queued_uploads", "max_queued_uploads", strconv.Itoa(rapid.IntRange(0, 2000000).Draw(t, "mq")), false))
	}
	if has("nu", 20) {
		add(mk("num_uploaders", "num_uploaders", strconv.Itoa(rapid.IntRange(0, 500).Draw(t, "nu")), false))
	}
	switch invalid {
	case "zero-max-blob-size":
		add(mk("max_blob_size", "max_blob_size", pick(t, "badBlob", "0", "-1"), false))
	case "negative-max-proxy-blob-size":
		add(mk("max_proxy_blob_size", "max_proxy_blob_size", pick(t, "badPBlob", "0", "-100"), false))
	}
	if invalid != "zero-max-blob-size" && has("mb", 25) {
		add(mk("max_blob_size", "max_blob_size", strconv.FormatInt(rapid.Int64Range(1, 1<<40).Draw(t, "mb"), 10), false))
	}
	if invalid != "negative-max-proxy-blob-size" && has("mpb", 25) {
		add(mk("max_proxy_blob_size", "max_proxy_blob_size", strconv.FormatInt(rapid.Int64Range(1, 1<<40).Draw(t, "mpb"), 10), false))
	}
	for _, b := range []string{"disable_http_ac_validation", "disable_grpc_ac_deps_check", "enable_ac_key_instance_mangling", "enable_endpoint_metrics", "http_metrics_prefix", "experimental_remote_asset_api"} {
		if b == "experimental_remote_asset_api" && grpcNone {
			continue
		}
		if has(b, 15) {
			add(mk(b, b, pick(t, b+"Val", "true", "true", "false"), false))
		}
	}
	if has("all", 15) {
		add(mk("access_log_level", "access_log_level", pick(t, "all", "none", "all"), true))
	}
	if has("tz", 15) {
		add(mk("log_timezone", "log_timezone", pick(t, "tz", "UTC", "local", "none"), true))
	}
	return drawn{settings: ss, invalid: invalid}
}

func renderYAML(ss []setting) string {
	var top []string
	blocks := map[string][]string{}
	var blockOrder []string
	for _, s := range ss {
		v := s.value
		if s.quote {
			v = strconv.Quote(v)
		}
		if len(s.yaml) == 1 {
			top = append(top, fmt.Sprintf("%s: %s", s.yaml[0], v))
		} else {
			if _, ok := blocks[s.yaml[0]]; !ok {
				blockOrder = append(blockOrder, s.yaml[0])
			}
			blocks[s.yaml[0]] = append(blocks[s.yaml[0]], fmt.Sprintf("  %s: %s", s.yaml[1], v))
		}
	}
	out := strings.Join(top, "\n") + "\n"
	for _, b := range blockOrder {
		out += b + ":\n" + strings.Join(blocks[b], "\n") + "\n"
	}
	return out
}

// viaFlags renders the settings as argv / environment and runs them through
// the real flag set into get().
func viaFlags(t *rapid.T, ss []setting) (*Config, error, []string, map[string]string) {
	args := []string{"bazel-remote"}
	env := map[string]string{}
	for _, s := range ss {
		where := "flag"
		if s.env != "" {
			where = rapid.SampledFrom([]string{"flag", "flag", "env", "both"}).Draw(t, "where:"+s.flag)
		}
		if where == "env" || where == "both" {
			env[s.env] = s.value
		}
		if where == "both" {
			// the flag must win over the environment variable
			env[s.env] = "overridden-by-flag"
			if _, err := strconv.Atoi(s.value); err == nil {
				env[s.env] = "7"
			} else if s.value == "true" || s.value == "false" {
				env[s.env] = map[string]string{"true": "false", "false": "true"}[s.value]
			} else if _, err := time.ParseDuration(s.value); err == nil {
				env[s.env] = "17s"
			}
		}
		if where == "flag" || where == "both" {
			if rapid.Bool().Draw(t, "eqForm") || s.value == "true" || s.value == "false" || strings.HasPrefix(s.value, "-") {
				args = append(args, "--"+s.flag+"="+s.value)
			} else {
				args = append(args, "--"+s.flag, s.value)
			}
		}
	}
	for _, f := range flags.GetCliFlags() {
		if e := envOf[f.Names()[0]]; e != "" {
			os.Unsetenv(e)
		}
	}
	for k, v := range env {
		os.Setenv(k, v)
	}
	defer func() {
		for k := range env {
			os.Unsetenv(k)
		}
	}()
	var cfg *Config
	var cerr error
	app := cli.NewApp()
	app.Flags = flags.GetCliFlags()
	app.Writer, app.ErrWriter = io.Discard, io.Discard
	app.HideHelp = true
	app.ExitErrHandler = func(*cli.Context, error) {}
	app.Action = func(ctx *cli.Context) error {
		cfg, cerr = get(ctx)
		return nil
	}
	if err := app.Run(args); err != nil {
		return nil, fmt.Errorf("flag parsing: %w", err), args, env
	}
	return cfg, cerr, args, env
}

func normalise(c *Config, given map[string]bool) Config {
	n := *c
	if n.S3CloudStorage != nil {
		s3 := *n.S3CloudStorage
		s3.KeyVersion = nil // deprecated: nil and 2 mean the same
		n.S3CloudStorage = &s3
	}
	if n.MaxSizeHardLimit <= 0 {
		n.MaxSizeHardLimit = 0 // "off" is -1 on one route and 0 on the other
	}
	if !given["http_address"] && !given["port"] {
		n.HTTPAddress = ""
	}
	if !given["grpc_address"] && !given["grpc_port"] {
		n.GRPCAddress = ""
	}
	if !given["profile_address"] && !given["profile_port"] {
		n.ProfileAddress = ""
	}
	n.ProxyBackend, n.TLSConfig, n.AccessLogger, n.ErrorLogger = nil, nil, nil, nil
	return n
}

func diff(a, b Config) []string {
	var out []string
	va, vb := reflect.ValueOf(a), reflect.ValueOf(b)
	for i := 0; i < va.NumField(); i++ {
		if !reflect.DeepEqual(va.Field(i).Interface(), vb.Field(i).Interface()) {
			fa, _ := json.Marshal(va.Field(i).Interface())
			fb, _ := json.Marshal(vb.Field(i).Interface())
			out = append(out, fmt.Sprintf("%s: flags/env=%s yaml=%s", va.Type().Field(i).Name, fa, fb))
		}
	}
	return out
}

func TestC19FlagsYamlAgree(t *testing.T) {
	runRapid(t, 2500, 20000, func(t *rapid.T) {
		d := drawSettings(t)
		given := map[string]bool{}
		var names []string
		for _, s := range d.settings {
			given[s.flag] = true
			names = append(names, s.flag)
		}
		sort.Strings(names)
		yamlDoc := renderYAML(d.settings)
		ycfg, yerr := NewFromYaml([]byte(yamlDoc))
		fcfg, ferr, args, env := viaFlags(t, d.settings)
		E.Case(strings.Join(names, ",")+"|"+d.invalid, len(names) >= 4 || d.invalid != "none", "invalid="+d.invalid, fmt.Sprintf("nsettings=%d", min(len(names)/5*5, 40)))
		E.Sample(d.invalid, map[string]any{"argv": args, "env": env, "yaml": yamlDoc, "flags_error": fmt.Sprint(ferr), "yaml_error": fmt.Sprint(yerr)})
		ctxs := fmt.Sprintf("invalid=%s\nargv: %q\nenv: %v\nyaml:\n%s\nflags/env route error: %v\nyaml route error: %v", d.invalid, args, env, yamlDoc, ferr, yerr)
		if d.invalid != "none" {
			if ferr == nil {
				t.Fatalf("invalid set-up (%s) accepted on the flag/env route\n%s", d.invalid, ctxs)
			}
			if yerr == nil {
				t.Fatalf("invalid set-up (%s) accepted on the YAML route\n%s", d.invalid, ctxs)
			}
			return
		}
		if (ferr == nil) != (yerr == nil) {
			t.Fatalf("the same explicitly given settings are accepted on one route and refused on the other\n%s", ctxs)
		}
		if ferr != nil {
			t.Fatalf("valid set-up refused on both routes (generator or code at fault)\n%s", ctxs)
		}
		if df := diff(normalise(fcfg, given), normalise(ycfg, given)); len(df) > 0 {
			t.Fatalf("effective configurations differ:\n  %s\n%s", strings.Join(df, "\n  "), ctxs)
		}
	})
}
