package c14

import (
	"bytes"
	"context"
	"io"
	"net/http"
	"net/http/httptest"
	"os"
	"path/filepath"
	"strings"
	"sync"
	"testing"

	"github.com/buchgr/bazel-remote/v2/cache"
	"github.com/buchgr/bazel-remote/v2/cache/disk"
	"github.com/buchgr/bazel-remote/v2/server"
	"google.golang.org/grpc/codes"

	"verif/harness/internal/casfmt"
	"verif/harness/internal/cl"
	"verif/harness/internal/gen"
	"verif/harness/internal/stack"
)

// Native (coverage-guided) fuzz targets, thorough tier only. Each decodes
// the input into structured arguments and carries its oracle inside.

var (
	fzOnce  sync.Once
	fzStack *stack.Stack
	fzSmall = gen.MakeBlob(1, 100, "text", "s")
	fzBig   = gen.MakeBlob(2, 70000, "rand", "b")
)

func fuzzStack(f interface{ Fatal(...any) }) *stack.Stack {
	fzOnce.Do(func() {
		s, err := stack.New(stack.Opts{Storage: "zstd"})
		if err != nil {
			f.Fatal(err)
		}
		for _, b := range []gen.Blob{fzSmall, fzBig} {
			_ = s.Cache.Put(context.Background(), cache.CAS, b.Hash, b.Size, bytes.NewReader(b.Data))
		}
		fzStack = s
	})
	return fzStack
}

// FuzzC14HTTP drives the real HTTP handler in-process with (method, path,
// three header values, body).
func FuzzC14HTTP(f *testing.F) {
	f.Add("GET", "/cas/"+fzSmall.Hash, "", "", "", []byte{})
	f.Add("PUT", "/cas/"+fzSmall.Hash, "100", "", "", fzSmall.Data)
	f.Add("PUT", "/cas/"+fzSmall.Hash, "100", "zstd", "", gen.ZstdGo(fzSmall.Data, 1, false))
	f.Add("HEAD", "/inst/ac/"+goodHash, "-1", "gzip", "zstd", []byte("x"))
	f.Add("PUT", "/ac/"+goodHash, "9223372036854775807", "zstd", "application/json", []byte(`{"exitCode":1}`))
	f.Add("GET", "/cas/"+strings.Repeat("g", 64), "0", "identity", "*", []byte{0x28, 0xb5, 0x2f, 0xfd})
	f.Fuzz(func(t *testing.T, method, path, xdigest, cenc, aenc string, body []byte) {
		s := fuzzStack(t)
		h := server.NewHTTPCache(s.Cache, stackSilent, stackSilent, true, false, false, false, "", "", 1<<40)
		if !strings.HasPrefix(path, "/") {
			path = "/" + path
		}
		req, err := http.NewRequest(method, "http://x"+path, bytes.NewReader(body))
		if err != nil {
			return
		}
		if xdigest != "" {
			req.Header.Set("X-Digest-SizeBytes", xdigest)
		}
		if cenc != "" {
			req.Header.Set("Content-Encoding", cenc)
		}
		if aenc != "" {
			req.Header.Set("Accept-Encoding", aenc)
			req.Header.Set("Accept", aenc)
			req.Header.Set("Content-Type", aenc)
		}
		w := httptest.NewRecorder()
		h.CacheHandler(w, req) // a panic here is the finding
		if _, res, _, _ := s.Cache.Stats(); res != 0 {
			t.Fatalf("reserved=%d after %s %q", res, method, path)
		}
		if w.Code == 200 && method == "GET" && strings.HasSuffix(path, "/cas/"+fzSmall.Hash) && w.Header().Get("Content-Encoding") == "" && !bytes.Equal(w.Body.Bytes(), fzSmall.Data) {
			t.Fatalf("GET of a resident blob returned other bytes")
		}
	})
}

// FuzzC14ReadName: ByteStream.Read with arbitrary resource names / offsets / limits.
func FuzzC14ReadName(f *testing.F) {
	f.Add(cl.ReadName("", fzSmall.Hash, fzSmall.Size, false), int64(0), int64(0))
	f.Add(cl.ReadName("a/b", fzBig.Hash, fzBig.Size, true), int64(69999), int64(0))
	f.Add("blobs/"+fzSmall.Hash+"/-1", int64(-1), int64(-1))
	f.Add("compressed-blobs/zstd/"+fzBig.Hash+"/9223372036854775807", int64(1<<62), int64(1))
	f.Add("", int64(0), int64(0))
	f.Fuzz(func(t *testing.T, name string, off, lim int64) {
		s := fuzzStack(t)
		data, code, _ := cl.BSRead(s, name, off, lim)
		if s.Panics() > 0 {
			t.Fatalf("handler panic: %v", s.PanicLog)
		}
		if lim > 0 && int64(len(data)) > lim {
			t.Fatalf("delivered %d bytes > read_limit %d", len(data), lim)
		}
		if code == codes.OK && name == cl.ReadName("", fzBig.Hash, fzBig.Size, false) && off >= 0 && off <= fzBig.Size && lim == 0 && !bytes.Equal(data, fzBig.Data[off:]) {
			t.Fatalf("successful read returned other bytes")
		}
	})
}

// FuzzC14Header: arbitrary bytes as a cas.v2 file, read at (size, offset).
func FuzzC14Header(f *testing.F) {
	good := casfmt.Encode(fzSmall.Data, 32, func(b []byte) []byte { return gen.ZstdGo(b, 1, false) })
	f.Add(good, int64(100), int64(0))
	f.Add(good, int64(100), int64(33))
	f.Add(good[:40], int64(-1), int64(5))
	f.Add(casfmt.EncodeIdentity(fzSmall.Data, 1<<20), int64(100), int64(99))
	f.Fuzz(func(t *testing.T, file []byte, size, off int64) {
		if len(file) > 1<<20 || size < -1 || size == 0 {
			return
		}
		dir := stack.FreshDir() // tmpfs skeleton, recycled: a fresh directory on disk costs ~0.3 s
		defer stack.RecycleDir(dir)
		nameSize := size
		if nameSize < 1 {
			nameSize = 100
		}
		rel := casfmt.FileName("cas", fzSmall.Hash, nameSize, "fz", false)
		_ = os.MkdirAll(filepath.Dir(filepath.Join(dir, rel)), 0o755)
		if err := os.WriteFile(filepath.Join(dir, rel), file, 0o644); err != nil {
			t.Fatal(err)
		}
		c, err := disk.New(dir, 1<<30, disk.WithAccessLogger(stackSilent))
		if err != nil {
			t.Fatalf("start-up failed on a damaged file: %v", err)
		}
		for _, z := range []bool{false, true} {
			var rc io.ReadCloser
			if z {
				rc, _, _ = c.GetZstd(context.Background(), fzSmall.Hash, size, off)
			} else {
				rc, _, _ = c.Get(context.Background(), cache.CAS, fzSmall.Hash, size, off)
			}
			if rc != nil {
				_, _ = io.Copy(io.Discard, io.LimitReader(rc, 1<<24))
				rc.Close()
			}
		}
	})
}
