package c14

import (
	"bytes"
	"context"
	"encoding/binary"
	"fmt"
	"io"
	"log"
	"math"
	"net/http"
	"os"
	pathpkg "path"
	"path/filepath"
	"regexp"
	"runtime/debug"
	"strings"
	"testing"
	"time"

	"github.com/buchgr/bazel-remote/v2/cache"
	asset "github.com/buchgr/bazel-remote/v2/genproto/build/bazel/remote/asset/v1"
	pb "github.com/buchgr/bazel-remote/v2/genproto/build/bazel/remote/execution/v2"
	"google.golang.org/genproto/googleapis/bytestream"
	"google.golang.org/grpc/codes"
	"google.golang.org/grpc/status"
	"google.golang.org/protobuf/proto"
	"pgregory.net/rapid"

	"verif/harness/internal/casfmt"
	"verif/harness/internal/cl"
	"verif/harness/internal/ev"
	"verif/harness/internal/fproxy"
	"verif/harness/internal/gen"
	"verif/harness/internal/inv"
	"verif/harness/internal/rt"
	"verif/harness/internal/stack"
)

func TestMain(m *testing.M) { rt.Main(m, "C14") }

var E = ev.Get("C14")

var stackSilent = log.New(io.Discard, "", 0)

var journal *os.File

// the stack the running case talks to (for call's give-up path)
var curStack *stack.Stack

// note records the case that is about to run, so that a crash of the whole
// binary (a panic in a goroutine the server spawned cannot be recovered)
// still leaves the failing case behind.
func note(format string, a ...any) string {
	s := fmt.Sprintf(format, a...)
	if journal == nil {
		if p := os.Getenv("VERIF_JOURNAL"); p != "" {
			journal, _ = os.OpenFile(p, os.O_CREATE|os.O_WRONLY|os.O_APPEND, 0o644)
		}
	}
	if journal != nil {
		fmt.Fprintf(journal, "%q\n", s)
	}
	return s
}

const goodHash = "aaaaaaaaaaaaaaaaaaaaaaaaaaaaaaaaaaaaaaaaaaaaaaaaaaaaaaaaaaaaaaaa"
const emptyHash = "e3b0c44298fc1c149afbf4c8996fb92427ae41e4649b934ca495991b7852b855"

func hostileHash(t *rapid.T) string {
	return rapid.SampledFrom([]string{goodHash, emptyHash, "", "a", goodHash[:63], goodHash + "a", strings.ToUpper(goodHash), strings.Repeat("g", 64), strings.Repeat("0", 64), "../../../../etc/passwd", goodHash[:32] + "/" + goodHash[:31], "\x00" + goodHash[1:], strings.Repeat("a", 5000)}).Draw(t, "hash")
}

func hostileSize(t *rapid.T) int64 {
	return rapid.SampledFrom([]int64{0, 1, -1, 5, math.MaxInt64, math.MinInt64, math.MaxInt64 - 1, 1 << 40, 4096, -4096}).Draw(t, "size")
}

func hostileDigest(t *rapid.T) *pb.Digest {
	if rapid.IntRange(0, 7).Draw(t, "nilDigest") == 0 {
		return nil
	}
	return &pb.Digest{Hash: hostileHash(t), SizeBytes: hostileSize(t)}
}

// settle checks the "after a request ends, however it ended" half.
func settle(t *rapid.T, s *stack.Stack, what string) {
	if s.Panics() > 0 {
		t.Fatalf("handler panic: %v\nrequest: %s", s.PanicLog, what)
	}
	if gs := inv.LeakedRequestGoroutines(4 * time.Second); len(gs) > 0 {
		t.Fatalf("after the request ended a goroutine is still parked in request frames:\n%s\nrequest: %s", strings.Join(gs, "\n\n"), what)
	}
	if err := inv.SettledAccounting(s, 0, 3*time.Second); err != nil {
		t.Fatalf("%v\nrequest: %s", err, what)
	}
	if err := inv.DirEqualsIndex(s); err != nil {
		if strings.HasPrefix(err.Error(), "VERIF-INFRA") {
			fmt.Println(err)
		}
		t.Fatalf("%v\nrequest: %s", err, what)
	}
	if fds := inv.WaitNoFDs(s.Dir, 2*time.Second); len(fds) > 0 {
		t.Fatalf("descriptors still open into the cache directory: %v\nrequest: %s", fds, what)
	}
}

// call runs f with a ceiling; a call that does not return is a hang only if
// a goroutine is parked in request frames.
func call(t *rapid.T, what string, f func(ctx context.Context)) {
	ctx, cancel := context.WithTimeout(context.Background(), 20*time.Second)
	defer cancel()
	done := make(chan struct{})
	var panicked any
	go func() {
		defer close(done)
		defer func() {
			if r := recover(); r != nil {
				panicked = fmt.Sprintf("%v\n%s", r, debug.Stack())
			}
		}()
		f(ctx)
	}()
	select {
	case <-done:
		if panicked != nil {
			t.Fatalf("the call panicked: %v\nrequest: %s", panicked, what)
		}
	case <-time.After(30 * time.Second):
		gs := stack.GoroutinesWith("bazel-remote/v2/server.")
		if len(gs) > 0 {
			if curStack != nil {
				curStack.Abandon() // the handler is still running in there
			}
			t.Fatalf("request did not return within 30s; server goroutines:\n%s\nrequest: %s", strings.Join(gs, "\n\n"), what)
		}
		fmt.Println("VERIF-INFRA: call did not return and no server goroutine is parked")
		t.Fatalf("VERIF-INFRA")
	}
}

func mustErr(t *rapid.T, err error, what string) {
	if err == nil {
		t.Fatalf("malformed request answered OK: %s", what)
	}
	if c := status.Code(err); c == codes.Aborted && strings.Contains(err.Error(), "VERIF-RECOVERED-PANIC") {
		t.Fatalf("handler panicked: %s", what)
	}
}

func TestC14Requests(t *testing.T) {
	E.SetRule("rapid structure-aware generators over every HTTP and gRPC surface: HTTP method × path grammar (valid, odd and hostile hashes, instance prefixes) × headers (X-Digest-SizeBytes, Content-Encoding, Accept-Encoding, Content-Type) × bodies (valid, garbage, bad zstd); ByteStream Read / QueryWriteStatus resource names (mutated valid names, hostile segments) × offsets / limits incl. negative and MaxInt64; ByteStream.Write message scripts (names, offsets, finish flags, invalid zstd data, early client abort); unary CAS / AC / Asset requests populated with nil sub-messages, negative and huge sizes, odd hashes, nil list elements; stored Directory / Tree / ActionResult blobs with missing sub-messages stored under their true digest (or as AC entries) and then traversed by GetTree / GetActionResult / HTTP GET /ac; cas.v2 files with mutated header fields read at generated offsets. Oracle: no handler panic (recording interceptors; a crash of the binary is reported through the journal), every call returns within a ceiling, malformed requests get a non-OK status, and after each request: no goroutine parked in request frames, reserved = 0, directory = index, no descriptor into the cache directory. non-trivial: the request got past top-level argument validation (reached the disk layer, a decoder or a stored-message traversal); distinct by (surface, variant, status class)")
	rt.Check(t, rt.N(600, 4000), func(t *rapid.T) {
		storage := rapid.SampledFrom([]string{"zstd", "uncompressed"}).Draw(t, "storage")
		inv.SetBaseline()
		s, err := stack.New(stack.Opts{Storage: storage})
		curStack = s
		if err != nil {
			t.Fatal(err)
		}
		defer s.Close()
		// a few well-formed residents
		small := gen.MakeBlob(1, 100, "text", "s")
		big := gen.MakeBlob(2, 70000, "rand", "b")
		for _, b := range []gen.Blob{small, big} {
			_ = s.Cache.Put(context.Background(), cache.CAS, b.Hash, b.Size, bytes.NewReader(b.Data))
		}
		nreq := rapid.IntRange(1, 3).Draw(t, "nreq")
		for i := 0; i < nreq; i++ {
			surface := rapid.SampledFrom([]string{"http", "http", "bs-read", "bs-query", "bs-write", "bs-write", "findmissing", "batchupdate", "batchread", "gettree", "getac", "updateac", "splice", "fetch", "stored-dir", "stored-tree", "stored-ac"}).Draw(t, "surface")
			doSurface(t, s, surface, small, big, storage)
		}
	})
}

func doSurface(t *rapid.T, s *stack.Stack, surface string, small, big gen.Blob, storage string) {
	var what string
	deep := false
	statusCls := "-"
	switch surface {
	case "http":
		method := rapid.SampledFrom([]string{"GET", "HEAD", "PUT", "PUT", "POST", "DELETE", "OPTIONS", "PATCH"}).Draw(t, "method")
		kind := rapid.SampledFrom([]string{"cas", "ac", "cas", "ac", "blobs", ""}).Draw(t, "kind")
		hash := rapid.SampledFrom([]string{small.Hash, big.Hash, goodHash, emptyHash, goodHash[:63], strings.ToUpper(goodHash), "zz", ""}).Draw(t, "hash")
		prefix := rapid.SampledFrom([]string{"", "", "inst", "a/b", "cas", "%2e%2e", "x y"}).Draw(t, "prefix")
		p := "/" + kind + "/" + hash
		if prefix != "" {
			p = "/" + prefix + p
		}
		hdr := map[string]string{}
		if v := rapid.SampledFrom([]string{"", "", "0", "-1", "abc", "99999999999999999999", "100", "70000", "9223372036854775807"}).Draw(t, "xdigest"); v != "" {
			hdr["X-Digest-SizeBytes"] = v
		}
		if v := rapid.SampledFrom([]string{"", "", "zstd", "gzip", "identity", "zstd, gzip"}).Draw(t, "cenc"); v != "" {
			hdr["Content-Encoding"] = v
		}
		if v := rapid.SampledFrom([]string{"", "zstd", "gzip, zstd;q=0.5", "*"}).Draw(t, "aenc"); v != "" {
			hdr["Accept-Encoding"] = v
		}
		if rapid.IntRange(0, 3).Draw(t, "json") == 0 {
			hdr["Content-Type"] = "application/json"
			hdr["Accept"] = "application/json"
		}
		var body []byte
		if method == "PUT" || method == "POST" || method == "PATCH" {
			switch rapid.SampledFrom([]string{"match", "garbage", "zstd-ok", "zstd-bad", "empty", "json"}).Draw(t, "body") {
			case "match":
				body = small.Data
			case "garbage":
				body = gen.Expand(9, rapid.IntRange(1, 300).Draw(t, "glen"), "rand")
			case "zstd-ok":
				body = gen.ZstdGo(small.Data, 1, false)
			case "zstd-bad":
				body = append([]byte{0x28, 0xb5, 0x2f, 0xfd}, gen.Expand(3, rapid.IntRange(0, 100).Draw(t, "zlen"), "rand")...)
			case "json":
				body = []byte(`{"exitCode": 1, "outputFiles": [{"path": "x"}]}`)
			}
		}
		what = note("HTTP %s %q hdr=%v body=%d bytes", method, p, hdr, len(body))
		var resp cl.HTTPResp
		s.Client.CheckRedirect = func(*http.Request, []*http.Request) error { return http.ErrUseLastResponse }
		call(t, what, func(context.Context) { resp = cl.HTTPDo(s, method, p, hdr, body) })
		what += fmt.Sprintf(" -> %d %v", resp.Code, resp.Err)
		statusCls = fmt.Sprint(resp.Code / 100)
		// net/http's ServeMux cleans the path (and redirects) before the handler sees it
		cleaned := pathpkg.Clean(p)
		wellFormedPath := regexp.MustCompile(`^/(.*/)?(ac|cas)/[a-f0-9]{64}$`).MatchString(cleaned)
		malformedHash := !wellFormedPath
		badKind := false
		if (malformedHash || badKind) && resp.Err == nil && resp.Code < 300 && prefix != "%2e%2e" {
			t.Fatalf("malformed HTTP request answered %d: %s", resp.Code, what)
		}
		if method != "GET" && method != "HEAD" && method != "PUT" && resp.Err == nil && resp.Code < 300 {
			t.Fatalf("unsupported method answered %d: %s", resp.Code, what)
		}
		if resp.Err != nil && strings.Contains(resp.Err.Error(), "EOF") {
			// the connection was dropped: net/http does that when the handler panicked
			if s.Panics() > 0 {
				t.Fatalf("handler panic: %v\nrequest: %s", s.PanicLog, what)
			}
		}
		deep = !malformedHash && !badKind
	case "bs-read", "bs-query":
		base := rapid.SampledFrom([]string{cl.ReadName("", small.Hash, small.Size, false), cl.ReadName("i", big.Hash, big.Size, true), cl.WriteName("", "u", small.Hash, small.Size, false, ""), cl.WriteName("x", "u", big.Hash, big.Size, true, "/m")}).Draw(t, "base")
		name := base
		switch rapid.IntRange(0, 9).Draw(t, "mut") {
		case 0:
			name = ""
		case 1:
			name = strings.Replace(base, "/", "//", 1)
		case 2:
			name = base + "/"
		case 3:
			name = strings.Replace(base, "blobs", "blobz", 1)
		case 4:
			i := strings.LastIndexByte(base, '/')
			name = base[:i+1] + rapid.SampledFrom([]string{"-1", "abc", "99999999999999999999", "9223372036854775807", "0", "1e3", ""}).Draw(t, "sizeSeg")
		case 5:
			name = strings.Replace(base, small.Hash, hostileHash(t), 1)
		case 6:
			name = strings.Replace(base, "zstd", rapid.SampledFrom([]string{"gzip", "", "ZSTD", "identity"}).Draw(t, "comp"), 1)
		case 7:
			name = rapid.StringN(0, 60, -1).Draw(t, "randomName")
		case 8:
			name = "blobs/" + base
		}
		off := rapid.SampledFrom([]int64{0, 0, 1, -1, 99, 70000, 69999, math.MaxInt64, math.MinInt64, 1 << 20}).Draw(t, "off")
		lim := rapid.SampledFrom([]int64{0, 0, 1, -1, math.MaxInt64, math.MinInt64, 50}).Draw(t, "lim")
		if surface == "bs-read" {
			what = note("ByteStream.Read name=%q off=%d limit=%d", name, off, lim)
			var code codes.Code
			var data []byte
			call(t, what, func(context.Context) { data, code, _ = cl.BSRead(s, name, off, lim) })
			what += fmt.Sprintf(" -> %v (%d bytes)", code, len(data))
			statusCls = code.String()
			if (off < 0 || lim < 0) && code == codes.OK && !strings.HasSuffix(name, "/0") && name == base {
				t.Fatalf("negative offset/limit answered OK: %s", what)
			}
			if lim > 0 && int64(len(data)) > lim {
				t.Fatalf("more bytes than read_limit: %s", what)
			}
			deep = code == codes.OK || code == codes.NotFound || code == codes.OutOfRange
		} else {
			what = note("QueryWriteStatus name=%q", name)
			var err error
			call(t, what, func(ctx context.Context) {
				_, err = s.BS.QueryWriteStatus(ctx, &bytestream.QueryWriteStatusRequest{ResourceName: name})
			})
			statusCls = status.Code(err).String()
			what += " -> " + statusCls
			deep = err == nil
		}
	case "bs-write":
		z := rapid.Bool().Draw(t, "zstd")
		target := gen.MakeBlob(rapid.Uint64Range(10, 14).Draw(t, "seed"), rapid.SampledFrom([]int{1, 100, 5000, 70000, 1100000}).Draw(t, "size"), "text", "w")
		payload := target.Data
		pkind := rapid.SampledFrom([]string{"valid", "valid", "garbage", "truncated", "badmagic", "trailing", "empty"}).Draw(t, "payload")
		if z {
			payload = gen.ZstdGo(target.Data, 1, false)
		}
		switch pkind {
		case "garbage":
			payload = gen.Expand(77, rapid.IntRange(1, 5000).Draw(t, "glen"), "rand")
		case "truncated":
			payload = payload[:rapid.IntRange(0, len(payload)-1).Draw(t, "cut")]
		case "badmagic":
			payload = append([]byte{}, payload...)
			payload[0] ^= 0xff
		case "trailing":
			payload = append(append([]byte{}, payload...), gen.Expand(5, 20, "rand")...)
		case "empty":
			payload = nil
		}
		name := cl.WriteName(rapid.SampledFrom([]string{"", "i"}).Draw(t, "inst"), "u", target.Hash, target.Size, z, "")
		if rapid.IntRange(0, 5).Draw(t, "hostileName") == 0 {
			name = rapid.SampledFrom([]string{"", "uploads/u/blobs/" + hostileHash(t) + "/5", "uploads/u/compressed-blobs/zstd/" + target.Hash + "/-1", "uploads//blobs//", "uploads/u/blobs/" + target.Hash + "/9223372036854775807"}).Draw(t, "hname")
		}
		var cuts []int
		for j := rapid.IntRange(0, 3).Draw(t, "ncuts"); j > 0 && len(payload) > 0; j-- {
			cuts = append(cuts, rapid.IntRange(0, len(payload)).Draw(t, "cut"))
		}
		for a := 1; a < len(cuts); a++ {
			for b := a; b > 0 && cuts[b] < cuts[b-1]; b-- {
				cuts[b], cuts[b-1] = cuts[b-1], cuts[b]
			}
		}
		finish := rapid.SampledFrom([]string{"last", "last", "none", "abort"}).Draw(t, "finish")
		msgs := cl.Chunked(name, payload, cuts, finish == "last")
		if rapid.IntRange(0, 6).Draw(t, "oddOffsets") == 0 {
			for j := range msgs {
				msgs[j].Offset = hostileSize(t)
			}
		}
		prefixOnly := false
		if rapid.IntRange(0, 7).Draw(t, "sendPrefix") == 0 {
			prefixOnly = true
			// the client stops after a prefix of the messages (possibly none at
			// all) and half-closes or aborts
			msgs = msgs[:rapid.IntRange(0, len(msgs)-1).Draw(t, "prefixLen")]
			E.Label(fmt.Sprintf("bs-write-prefix=%d", min(len(msgs), 2)))
		}
		what = note("ByteStream.Write name=%q zstd=%v payload=%s(%d bytes) msgs=%d finish=%s storage=%s", name, z, pkind, len(payload), len(msgs), finish, storage)
		var r cl.BSWriteResult
		call(t, what, func(context.Context) { r = cl.BSWrite(s, msgs, finish == "abort") })
		what += fmt.Sprintf(" -> %v committed=%d", r.Code, r.Committed)
		statusCls = r.Code.String()
		if pkind != "valid" && !prefixOnly && r.Code == codes.OK && finish == "last" && name == cl.WriteName("", "u", target.Hash, target.Size, z, "") {
			t.Fatalf("invalid payload answered OK: %s", what)
		}
		deep = true
	case "findmissing":
		req := &pb.FindMissingBlobsRequest{InstanceName: rapid.SampledFrom([]string{"", "x"}).Draw(t, "inst")}
		for j := rapid.IntRange(0, 30).Draw(t, "n"); j > 0; j-- {
			req.BlobDigests = append(req.BlobDigests, hostileDigest(t))
		}
		what = note("FindMissingBlobs %v", req)
		var err error
		call(t, what, func(ctx context.Context) { _, err = s.CAS.FindMissingBlobs(ctx, req) })
		statusCls = status.Code(err).String()
		what += " -> " + statusCls
		deep = err == nil
	case "batchupdate":
		req := &pb.BatchUpdateBlobsRequest{}
		for j := rapid.IntRange(0, 4).Draw(t, "n"); j > 0; j-- {
			if rapid.IntRange(0, 9).Draw(t, "nilReq") == 0 {
				req.Requests = append(req.Requests, nil)
				continue
			}
			r := &pb.BatchUpdateBlobsRequest_Request{Digest: hostileDigest(t), Compressor: pb.Compressor_Value(rapid.IntRange(0, 5).Draw(t, "comp"))}
			r.Data = gen.Expand(3, rapid.IntRange(0, 200).Draw(t, "dlen"), "rand")
			if rapid.Bool().Draw(t, "zbomb") {
				r.Data = gen.ZstdGo(make([]byte, 1<<20), 1, false)
			}
			req.Requests = append(req.Requests, r)
		}
		what = note("BatchUpdateBlobs %d requests", len(req.Requests))
		var err error
		call(t, what, func(ctx context.Context) { _, err = s.CAS.BatchUpdateBlobs(ctx, req) })
		statusCls = status.Code(err).String()
		what += " -> " + statusCls
		deep = err == nil
	case "batchread":
		req := &pb.BatchReadBlobsRequest{}
		for j := rapid.IntRange(0, 5).Draw(t, "n"); j > 0; j-- {
			req.Digests = append(req.Digests, hostileDigest(t))
		}
		req.Digests = append(req.Digests, &pb.Digest{Hash: small.Hash, SizeBytes: rapid.SampledFrom([]int64{small.Size, small.Size + 1, 0}).Draw(t, "sz")})
		for j := rapid.IntRange(0, 2).Draw(t, "nc"); j > 0; j-- {
			req.AcceptableCompressors = append(req.AcceptableCompressors, pb.Compressor_Value(rapid.IntRange(0, 5).Draw(t, "ac")))
		}
		what = note("BatchReadBlobs %v", req)
		var err error
		call(t, what, func(ctx context.Context) { _, err = s.CAS.BatchReadBlobs(ctx, req) })
		statusCls = status.Code(err).String()
		what += " -> " + statusCls
		deep = err == nil
	case "gettree":
		req := &pb.GetTreeRequest{RootDigest: hostileDigest(t), PageSize: int32(rapid.IntRange(-1, 5).Draw(t, "ps")), PageToken: rapid.SampledFrom([]string{"", "x"}).Draw(t, "pt")}
		what = note("GetTree %v", req)
		var err error
		call(t, what, func(ctx context.Context) {
			st, e := s.CAS.GetTree(ctx, req)
			if e == nil {
				for e == nil {
					_, e = st.Recv()
				}
				if e == io.EOF {
					e = nil
				}
			}
			err = e
		})
		statusCls = status.Code(err).String()
		what += " -> " + statusCls
	case "getac", "updateac":
		ad := hostileDigest(t)
		if surface == "getac" {
			req := &pb.GetActionResultRequest{ActionDigest: ad, InstanceName: rapid.SampledFrom([]string{"", "i"}).Draw(t, "inst"), InlineStdout: true, InlineOutputFiles: []string{"", "a"}}
			what = note("GetActionResult %v", req)
			var err error
			call(t, what, func(ctx context.Context) { _, err = s.AC.GetActionResult(ctx, req) })
			statusCls = status.Code(err).String()
		} else {
			ar := &pb.ActionResult{}
			if rapid.IntRange(0, 5).Draw(t, "nilAR") == 0 {
				ar = nil
			} else {
				for j := rapid.IntRange(0, 3).Draw(t, "nf"); j > 0; j-- {
					if rapid.IntRange(0, 5).Draw(t, "nilFile") == 0 {
						ar.OutputFiles = append(ar.OutputFiles, nil)
					} else {
						ar.OutputFiles = append(ar.OutputFiles, &pb.OutputFile{Path: rapid.SampledFrom([]string{"", "a", "/a", "a/../b"}).Draw(t, "path"), Digest: hostileDigest(t), Contents: gen.Expand(1, rapid.IntRange(0, 20).Draw(t, "clen"), "rand")})
					}
				}
				if rapid.Bool().Draw(t, "dir") {
					ar.OutputDirectories = append(ar.OutputDirectories, &pb.OutputDirectory{Path: "d", TreeDigest: hostileDigest(t)})
				}
				ar.StdoutDigest = hostileDigest(t)
				ar.StdoutRaw = gen.Expand(2, rapid.IntRange(0, 30).Draw(t, "solen"), "rand")
			}
			req := &pb.UpdateActionResultRequest{ActionDigest: ad, ActionResult: ar}
			what = note("UpdateActionResult %v", req)
			var err error
			call(t, what, func(ctx context.Context) { _, err = s.AC.UpdateActionResult(ctx, req) })
			statusCls = status.Code(err).String()
			deep = err == nil
		}
		what += " -> " + statusCls
	case "splice":
		req := &pb.SpliceBlobRequest{BlobDigest: hostileDigest(t), DigestFunction: pb.DigestFunction_Value(rapid.IntRange(0, 9).Draw(t, "df"))}
		for j := rapid.IntRange(0, 4).Draw(t, "n"); j > 0; j-- {
			switch rapid.IntRange(0, 3).Draw(t, "ck") {
			case 0:
				req.ChunkDigests = append(req.ChunkDigests, hostileDigest(t))
			case 1:
				req.ChunkDigests = append(req.ChunkDigests, &pb.Digest{Hash: small.Hash, SizeBytes: small.Size})
			default:
				req.ChunkDigests = append(req.ChunkDigests, &pb.Digest{Hash: big.Hash, SizeBytes: big.Size})
			}
		}
		if rapid.Bool().Draw(t, "consistentTotal") {
			var tot int64
			ok := true
			for _, c := range req.ChunkDigests {
				if c == nil {
					ok = false
					break
				}
				tot += c.SizeBytes
			}
			if ok {
				req.BlobDigest = &pb.Digest{Hash: goodHash, SizeBytes: tot}
			}
		}
		what = note("SpliceBlob %v", req)
		var err error
		call(t, what, func(ctx context.Context) { _, err = s.CAS.SpliceBlob(ctx, req) })
		statusCls = status.Code(err).String()
		what += " -> " + statusCls
		deep = status.Code(err) != codes.InvalidArgument
	case "fetch":
		req := &asset.FetchBlobRequest{}
		for j := rapid.IntRange(0, 2).Draw(t, "nu"); j > 0; j-- {
			req.Uris = append(req.Uris, rapid.SampledFrom([]string{"", "ftp://x/y", "file:///etc/passwd", "http://127.0.0.1:1/nothing", "http://[::1", "://", "http://127.0.0.1:1/\x7f"}).Draw(t, "uri"))
		}
		for j := rapid.IntRange(0, 3).Draw(t, "nq"); j > 0; j-- {
			if rapid.IntRange(0, 5).Draw(t, "nilQ") == 0 {
				req.Qualifiers = append(req.Qualifiers, nil)
			} else {
				req.Qualifiers = append(req.Qualifiers, &asset.Qualifier{Name: rapid.SampledFrom([]string{"checksum.sri", "http_header:X", "http_header_url:0:X", "http_header_url:9:X", "http_header_url:x", "http_header_url:", "other"}).Draw(t, "qn"),
					Value: rapid.SampledFrom([]string{"", "sha256-", "sha256-!!!", "sha256-AAAA", "sha256-47DEQpj8HBSa+/TImW+5JCeuQeRkm5NMpJWZG3hSuFU=", "md5-x", "a,b"}).Draw(t, "qv")})
			}
		}
		what = note("FetchBlob %v", req)
		var err error
		call(t, what, func(ctx context.Context) { _, err = s.Asset.FetchBlob(ctx, req) })
		statusCls = status.Code(err).String()
		what += " -> " + statusCls
	case "stored-dir", "stored-tree", "stored-ac":
		deep = true
		// messages with missing sub-messages, stored under their true digest
		dn := func() *pb.DirectoryNode {
			switch rapid.IntRange(0, 3).Draw(t, "dnKind") {
			case 0:
				return &pb.DirectoryNode{Name: "n"} // no digest
			case 1:
				return &pb.DirectoryNode{Name: "n", Digest: &pb.Digest{Hash: hostileHash(t), SizeBytes: hostileSize(t)}}
			case 2:
				return nil
			}
			return &pb.DirectoryNode{Name: "n", Digest: &pb.Digest{Hash: small.Hash, SizeBytes: small.Size}} // not a Directory
		}
		fn := func() *pb.FileNode {
			switch rapid.IntRange(0, 2).Draw(t, "fnKind") {
			case 0:
				return &pb.FileNode{Name: "f"}
			case 1:
				return nil
			}
			return &pb.FileNode{Name: "f", Digest: &pb.Digest{Hash: hostileHash(t), SizeBytes: hostileSize(t)}}
		}
		dir := func() *pb.Directory {
			d := &pb.Directory{}
			for j := rapid.IntRange(0, 2).Draw(t, "ndn"); j > 0; j-- {
				d.Directories = append(d.Directories, dn())
			}
			for j := rapid.IntRange(0, 2).Draw(t, "nfn"); j > 0; j-- {
				d.Files = append(d.Files, fn())
			}
			return d
		}
		marshal := func(m proto.Message) []byte {
			b, err := proto.MarshalOptions{AllowPartial: true}.Marshal(m)
			if err != nil {
				// nil elements in repeated fields cannot be marshalled: drop them
				return nil
			}
			return b
		}
		putCAS := func(b []byte) *pb.Digest {
			if len(b) == 0 {
				b = []byte{0x0a, 0x00} // field 1, empty bytes
			}
			h := gen.SHA(b)
			_ = s.Cache.Put(context.Background(), cache.CAS, h, int64(len(b)), bytes.NewReader(b))
			return &pb.Digest{Hash: h, SizeBytes: int64(len(b))}
		}
		var raw []byte
		if rapid.IntRange(0, 4).Draw(t, "rawGarbage") == 0 {
			raw = gen.Expand(4, rapid.IntRange(1, 80).Draw(t, "rglen"), "rand")
		}
		switch surface {
		case "stored-dir":
			b := marshal(dir())
			if raw != nil {
				b = raw
			}
			d := putCAS(b)
			what = note("GetTree on stored Directory blob %x", b)
			var err error
			call(t, what, func(ctx context.Context) {
				st, e := s.CAS.GetTree(ctx, &pb.GetTreeRequest{RootDigest: d})
				for e == nil {
					_, e = st.Recv()
				}
				err = e
			})
			statusCls = status.Code(err).String()
		case "stored-tree", "stored-ac":
			tree := &pb.Tree{}
			if rapid.IntRange(0, 3).Draw(t, "noRoot") != 0 {
				tree.Root = dir()
			}
			for j := rapid.IntRange(0, 2).Draw(t, "nch"); j > 0; j-- {
				tree.Children = append(tree.Children, dir())
			}
			tb := marshal(tree)
			if raw != nil && surface == "stored-tree" {
				tb = raw
			}
			td := putCAS(tb)
			ar := &pb.ActionResult{OutputDirectories: []*pb.OutputDirectory{{Path: "d", TreeDigest: td}}, ExecutionMetadata: &pb.ExecutedActionMetadata{Worker: "w"}}
			if surface == "stored-ac" {
				// an AC entry that the validator would have refused, e.g. from an older release or a backend
				switch rapid.IntRange(0, 4).Draw(t, "acKind") {
				case 0:
					ar.OutputFiles = []*pb.OutputFile{{Path: "x"}}
				case 1:
					ar.OutputDirectories = []*pb.OutputDirectory{{Path: "d"}}
				case 2:
					ar.StdoutDigest = &pb.Digest{Hash: "zz", SizeBytes: -1}
				case 3:
					ar.OutputFiles = []*pb.OutputFile{{Path: "x", Digest: &pb.Digest{Hash: small.Hash, SizeBytes: -5}}}
				}
			}
			ab := marshal(ar)
			if raw != nil && surface == "stored-ac" {
				ab = raw
			}
			if len(ab) == 0 {
				ab = []byte{0x20, 0x01}
			}
			key := gen.SHA([]byte("stored"))
			_ = s.Cache.Put(context.Background(), cache.AC, key, int64(len(ab)), bytes.NewReader(ab))
			what = note("lookup of stored AC entry %x with Tree blob %x", ab, tb)
			q := rapid.SampledFrom([]string{"grpc", "http-get", "http-head"}).Draw(t, "query")
			call(t, what, func(ctx context.Context) {
				switch q {
				case "grpc":
					_, err := s.AC.GetActionResult(ctx, &pb.GetActionResultRequest{ActionDigest: &pb.Digest{Hash: key, SizeBytes: 1}, InlineStdout: true})
					statusCls = status.Code(err).String()
				case "http-get":
					r := cl.HTTPGet(s, "/ac/"+key, nil)
					statusCls = fmt.Sprint(r.Code)
				default:
					r := cl.HTTPHead(s, "/ac/"+key)
					statusCls = fmt.Sprint(r.Code)
				}
			})
			what += " via " + q
		}
		what += " -> " + statusCls
	}
	E.Case(surface+"|"+statusCls+"|"+fmt.Sprint(deep), deep, "surface="+surface, "status="+surface+":"+statusCls)
	E.Sample(surface+"/"+statusCls, what)
	settle(t, s, what)
}

// TestC14DiskFiles: cas.v2 files whose header fields are mutated must be
// handled as a miss or an error by every read, never a panic.
func TestC14DiskFiles(t *testing.T) {
	rt.Check(t, rt.N(500, 4000), func(t *rapid.T) {
		b := gen.MakeBlob(rapid.Uint64Range(0, 9).Draw(t, "seed"), rapid.SampledFrom([]int{10, 5000, 70000, 200000}).Draw(t, "size"), "text", "f")
		chunk := rapid.SampledFrom([]int{4096, 65536, gen.MiB}).Draw(t, "chunk")
		file := casfmt.Encode(b.Data, chunk, func(x []byte) []byte { return gen.ZstdGo(x, 1, false) })
		le := binary.LittleEndian
		nOff := int(le.Uint64(file[21:]))
		mut := rapid.SampledFrom([]string{"chunksize0", "chunksize1", "chunksize-huge", "usize+chunk", "usize-huge", "usize0", "usize-neg", "type2", "noffsets-1", "offset-swap", "offset-beyond", "truncate", "frame-size", "magic", "none", "header-random-byte"}).Draw(t, "mutation")
		f := append([]byte{}, file...)
		switch mut {
		case "chunksize0":
			le.PutUint32(f[17:], 0)
		case "chunksize1":
			le.PutUint32(f[17:], 1)
		case "chunksize-huge":
			le.PutUint32(f[17:], math.MaxUint32)
		case "usize+chunk":
			le.PutUint64(f[8:], uint64(b.Size)+uint64(chunk)*uint64(rapid.IntRange(1, 5).Draw(t, "k")))
		case "usize-huge":
			le.PutUint64(f[8:], math.MaxInt64)
		case "usize0":
			le.PutUint64(f[8:], 0)
		case "usize-neg":
			le.PutUint64(f[8:], uint64(1)<<63)
		case "type2":
			f[16] = byte(rapid.IntRange(2, 255).Draw(t, "ctype"))
		case "noffsets-1":
			// drop one chunk from the table, keeping the header self-consistent
			if nOff >= 3 {
				le.PutUint64(f[21:], uint64(nOff-1))
				le.PutUint32(f[4:], uint32(37-8+8*(nOff-1)-8))
				f = append(f[:29+8*(nOff-1)], f[29+8*nOff:]...)
				for i := 0; i < nOff-1; i++ {
					le.PutUint64(f[29+8*i:], le.Uint64(f[29+8*i:])-8)
				}
				le.PutUint64(f[29+8*(nOff-2):], uint64(len(f)))
			}
		case "offset-swap":
			if nOff >= 3 {
				a, c := le.Uint64(f[29:]), le.Uint64(f[37:])
				le.PutUint64(f[29:], c)
				le.PutUint64(f[37:], a)
			}
		case "offset-beyond":
			le.PutUint64(f[29+8*(nOff-1):], uint64(len(f))+100)
		case "truncate":
			f = f[:rapid.IntRange(0, len(f)-1).Draw(t, "cut")]
		case "frame-size":
			le.PutUint32(f[4:], uint32(rapid.IntRange(0, 200).Draw(t, "fs")))
		case "magic":
			f[0] ^= 0x01
		case "header-random-byte":
			f[rapid.IntRange(0, min(len(f)-1, 29+8*nOff)).Draw(t, "pos")] ^= byte(1 << rapid.IntRange(0, 7).Draw(t, "bit"))
		}
		// the size in the file name may also disagree with the header
		nameSize := b.Size
		if rapid.IntRange(0, 4).Draw(t, "nameSizeLie") == 0 {
			nameSize = rapid.SampledFrom([]int64{1, b.Size + 1, b.Size + int64(chunk), 1 << 33}).Draw(t, "nameSize")
		}
		inv.SetBaseline()
		dir := stack.FreshDir()
		defer stack.RecycleDir(dir)
		rel := casfmt.FileName("cas", b.Hash, nameSize, "x1", false)
		_ = os.MkdirAll(filepath.Dir(filepath.Join(dir, rel)), 0o755)
		if err := os.WriteFile(filepath.Join(dir, rel), f, 0o644); err != nil {
			t.Fatal(err)
		}
		storage := rapid.SampledFrom([]string{"zstd", "uncompressed"}).Draw(t, "storage")
		s, err := stack.New(stack.Opts{Storage: storage, Zstd: rapid.SampledFrom([]string{"go", "cgo"}).Draw(t, "codec"), Dir: dir})
		if err != nil {
			t.Fatalf("start-up failed on a directory with a damaged cas.v2 file: %v", err)
		}
		defer s.Close()
		off := rapid.SampledFrom([]int64{0, 1, int64(chunk) - 1, int64(chunk), int64(chunk) + 1, b.Size - 1, b.Size / 2, 3 * int64(chunk), nameSize - 1}).Draw(t, "off")
		if off < 0 {
			off = 0
		}
		via := rapid.SampledFrom([]string{"get", "getzstd", "bs", "bs-zstd", "http", "http-zstd"}).Draw(t, "via")
		what := note("read via %s at offset %d of a cas.v2 file (size %d chunk %d, name size %d) with mutation %s: header %x", via, off, b.Size, chunk, nameSize, mut, f[:min(len(f), 29+8*min(nOff, 4))])
		E.Case("diskfile|"+mut+"|"+via, mut != "none", "surface=diskfile", "mutation="+mut, "via="+via)
		E.Sample("diskfile/"+mut, what)
		var got []byte
		ok := false
		func() {
			defer func() {
				if r := recover(); r != nil {
					t.Fatalf("reading a damaged cas.v2 file panicked: %v\n%s", r, what)
				}
			}()
			call(t, what, func(ctx context.Context) {
				switch via {
				case "get", "getzstd":
					var rc io.ReadCloser
					var err error
					if via == "get" {
						rc, _, err = s.Cache.Get(ctx, cache.CAS, b.Hash, nameSize, off)
					} else {
						rc, _, err = s.Cache.GetZstd(ctx, b.Hash, nameSize, off)
					}
					if rc != nil && err == nil {
						d, rerr := io.ReadAll(rc)
						rc.Close()
						if rerr == nil {
							ok = true
							got = d
							if via == "getzstd" {
								got, rerr = gen.DecodeBoth(d)
								ok = rerr == nil
							}
						}
					}
				case "bs", "bs-zstd":
					d, code, _ := cl.BSRead(s, cl.ReadName("", b.Hash, nameSize, via == "bs-zstd"), off, 0)
					if code == codes.OK {
						ok, got = true, d
						if via == "bs-zstd" {
							var e error
							got, e = gen.DecodeBoth(d)
							ok = e == nil
						}
					}
				default:
					hdr := map[string]string{}
					if via == "http-zstd" {
						hdr["Accept-Encoding"] = "zstd"
					}
					r := cl.HTTPGet(s, "/cas/"+b.Hash, hdr)
					off = 0
					if r.Code == 200 && r.Err == nil {
						ok, got = true, r.Body
						if r.Header.Get("Content-Encoding") == "zstd" {
							var e error
							got, e = gen.DecodeBoth(r.Body)
							ok = e == nil
						}
					}
				}
			})
		}()
		// a successful, complete read must never return bytes that are not the blob's
		if ok && off <= b.Size && !bytes.Equal(got, b.Data[off:]) && mut != "none" && nameSize == b.Size {
			E.Label("damaged-file:served-other-bytes:" + mut)
		}
		if mut == "none" && nameSize == b.Size && off < b.Size && (!ok || !bytes.Equal(got, b.Data[off:])) {
			t.Fatalf("undamaged file not served correctly: %s", what)
		}
		settle(t, s, what)
	})
}

var _ = http.MethodGet

// TestC14Backend: requests that end early (fail-fast dependency check, client
// abort) while backend existence checks are still queued must leave nothing behind.
func TestC14Backend(t *testing.T) {
	rt.Check(t, rt.N(60, 500), func(t *rapid.T) {
		inv.SetBaseline()
		px := fproxy.New()
		maxDelay := rapid.SampledFrom([]int{0, 500, 3000, 10000}).Draw(t, "maxDelayMicros")
		px.ContDelay = func(hash string) time.Duration {
			if maxDelay == 0 {
				return 0
			}
			return time.Duration(int(hash[0])*int(hash[2])%maxDelay) * time.Microsecond
		}
		s, err := stack.New(stack.Opts{Proxy: px})
		curStack = s
		if err != nil {
			t.Fatal(err)
		}
		defer s.Close()
		n := rapid.SampledFrom([]int{1, 5, 25, 60, 600}).Draw(t, "n")
		inBackend := rapid.SampledFrom([]string{"none", "some", "all-but-one", "all"}).Draw(t, "inBackend")
		var ds []*pb.Digest
		for i := 0; i < n; i++ {
			data := gen.Expand(uint64(i)+5000, 30, "rand")
			d := &pb.Digest{Hash: gen.SHA(data), SizeBytes: 30}
			ds = append(ds, d)
			have := inBackend == "all" || (inBackend == "some" && i%3 != 0) || (inBackend == "all-but-one" && i != min(n, 200)/2)
			if have {
				px.Set(cache.CAS, d.Hash, fproxy.Obj{Stored: data, Logical: 30})
			}
		}
		surface := rapid.SampledFrom([]string{"findmissing-abort", "depcheck", "depcheck-http", "fetch-breaks", "fetch-breaks"}).Draw(t, "surface")
		what := note("%s with %d digests (backend holds: %s, backend delay <= %dus)", surface, n, inBackend, maxDelay)
		statusCls := "-"
		switch surface {
		case "fetch-breaks":
			// a read that has to fetch from the backend, whose stream then breaks
			// (error or early end at byte k, nil reader, error before the answer);
			// with and without a size in the request
			size := rapid.SampledFrom([]int{1, 5000, 70000, 1100000}).Draw(t, "blobSize")
			data := gen.Expand(4242, size, "rand")
			h := gen.SHA(data)
			storedForm := casfmt.Encode(data, gen.Chunk, func(b []byte) []byte { return gen.ZstdGo(b, 1, false) })
			px.Set(cache.CAS, h, fproxy.Obj{Stored: storedForm, Logical: int64(size)})
			f := fproxy.Fault{Kind: rapid.SampledFrom([]string{"stream-err", "stream-err", "clean-eof", "clean-eof", "err-before", "nil-reader-no-err", "bad-header"}).Draw(t, "fetchFault")}
			if f.Kind == "stream-err" || f.Kind == "clean-eof" {
				f.At = rapid.IntRange(0, len(storedForm)-1).Draw(t, "faultAt")
			}
			px.SetFault(cache.CAS, h, f)
			via := rapid.SampledFrom([]string{"http-get", "http-get", "bs-read", "disk-unknown"}).Draw(t, "via")
			what = note("fetch-breaks via %s: %d-byte blob held by the backend only, fault %s at %d", via, size, f.Kind, f.At)
			switch via {
			case "http-get":
				r := cl.HTTPGet(s, "/cas/"+h, nil)
				statusCls = fmt.Sprint(r.Code)
				if r.Code == 200 && r.Err == nil && !bytes.Equal(r.Body, data) {
					t.Fatalf("complete 200 response with other bytes: %s", what)
				}
			case "bs-read":
				_, code, _ := cl.BSRead(s, cl.ReadName("", h, int64(size), false), 0, 0)
				statusCls = code.String()
			default:
				rc, _, err := s.Cache.Get(context.Background(), cache.CAS, h, -1, 0)
				if rc != nil {
					io.Copy(io.Discard, rc)
					rc.Close()
				}
				statusCls = fmt.Sprint(err != nil)
			}
			px.ClearFaults()
		case "findmissing-abort":
			to := time.Duration(rapid.SampledFrom([]int{0, 1, 5, 50, 20000}).Draw(t, "timeoutMillis")) * time.Millisecond
			ctx, cancel := context.WithTimeout(context.Background(), to)
			_, err := s.CAS.FindMissingBlobs(ctx, &pb.FindMissingBlobsRequest{BlobDigests: ds})
			cancel()
			statusCls = status.Code(err).String()
		default:
			ar := &pb.ActionResult{ExecutionMetadata: &pb.ExecutedActionMetadata{Worker: "w"}}
			for i, d := range ds {
				if i >= 200 {
					break
				}
				ar.OutputFiles = append(ar.OutputFiles, &pb.OutputFile{Path: fmt.Sprint("f", i), Digest: d})
			}
			body, _ := proto.Marshal(ar)
			key := gen.SHA([]byte("dep"))
			if err := s.Cache.Put(context.Background(), cache.AC, key, int64(len(body)), bytes.NewReader(body)); err != nil {
				t.Fatal(err)
			}
			px.Wait()
			if surface == "depcheck" {
				ctx, cancel := cl.Ctx()
				_, err := s.AC.GetActionResult(ctx, &pb.GetActionResultRequest{ActionDigest: &pb.Digest{Hash: key, SizeBytes: 1}})
				cancel()
				statusCls = status.Code(err).String()
				if inBackend == "all" && err != nil {
					t.Fatalf("every dependency is in the backend but the lookup failed: %v: %s", err, what)
				}
				if inBackend != "all" && err == nil {
					t.Fatalf("a dependency is absent everywhere but the lookup hit: %s", what)
				}
			} else {
				r := cl.HTTPGet(s, "/ac/"+key, nil)
				statusCls = fmt.Sprint(r.Code)
			}
		}
		what += " -> " + statusCls
		E.Case("backend|"+surface+"|"+inBackend+"|"+statusCls+fmt.Sprint(n), true, "surface="+surface, "status="+surface+":"+statusCls)
		E.Sample(surface+"/"+inBackend, what)
		settle(t, s, what)
	})
}
