// Package cl contains thin client helpers over the in-process stack.
package cl

import (
	"bytes"
	"context"
	"fmt"
	"io"
	"net/http"
	"strconv"
	"time"

	pb "github.com/buchgr/bazel-remote/v2/genproto/build/bazel/remote/execution/v2"
	"verif/harness/internal/stack"

	"google.golang.org/genproto/googleapis/bytestream"
	"google.golang.org/grpc/codes"
	"google.golang.org/grpc/status"
)

func Ctx() (context.Context, context.CancelFunc) {
	return context.WithTimeout(context.Background(), 60*time.Second)
}

type HTTPResp struct {
	Code   int
	Header http.Header
	Body   []byte
	Err    error // transport-level error (incl. short body)
}

func HTTPDo(s *stack.Stack, method, path string, hdr map[string]string, body []byte) HTTPResp {
	var rd io.Reader
	if body != nil {
		rd = bytes.NewReader(body)
	}
	req, err := http.NewRequest(method, s.URL+path, rd)
	if err != nil {
		return HTTPResp{Err: err}
	}
	for k, v := range hdr {
		if k == "Content-Length" {
			n, _ := strconv.ParseInt(v, 10, 64)
			req.ContentLength = n
			continue
		}
		req.Header.Set(k, v)
	}
	resp, err := s.Client.Do(req)
	if err != nil {
		return HTTPResp{Err: err}
	}
	defer resp.Body.Close()
	b, err := io.ReadAll(resp.Body)
	return HTTPResp{Code: resp.StatusCode, Header: resp.Header, Body: b, Err: err}
}

func HTTPGet(s *stack.Stack, path string, hdr map[string]string) HTTPResp {
	return HTTPDo(s, "GET", path, hdr, nil)
}
func HTTPHead(s *stack.Stack, path string) HTTPResp { return HTTPDo(s, "HEAD", path, nil, nil) }
func HTTPPut(s *stack.Stack, path string, hdr map[string]string, body []byte) HTTPResp {
	if body == nil {
		body = []byte{}
	}
	return HTTPDo(s, "PUT", path, hdr, body)
}

// BSRead performs ByteStream.Read and returns the concatenated data and the
// final status (codes.OK on clean EOF).
func BSRead(s *stack.Stack, name string, offset, limit int64) ([]byte, codes.Code, error) {
	ctx, cancel := Ctx()
	defer cancel()
	st, err := s.BS.Read(ctx, &bytestream.ReadRequest{ResourceName: name, ReadOffset: offset, ReadLimit: limit})
	if err != nil {
		return nil, status.Code(err), err
	}
	var buf bytes.Buffer
	for {
		m, err := st.Recv()
		if err == io.EOF {
			return buf.Bytes(), codes.OK, nil
		}
		if err != nil {
			return buf.Bytes(), status.Code(err), err
		}
		buf.Write(m.Data)
	}
}

// WriteMsg is one ByteStream.WriteRequest of a scripted upload.
type WriteMsg struct {
	Name   string
	Offset int64
	Data   []byte
	Finish bool
}

type BSWriteResult struct {
	Committed int64
	Code      codes.Code
	Err       error
	Sent      int // number of messages successfully handed to Send
}

// BSWrite sends the scripted messages. If halfClose is false the client
// aborts (cancels) after the last message instead of CloseAndRecv.
func BSWrite(s *stack.Stack, msgs []WriteMsg, abort bool) BSWriteResult {
	ctx, cancel := Ctx()
	defer cancel()
	st, err := s.BS.Write(ctx)
	if err != nil {
		return BSWriteResult{Code: status.Code(err), Err: err}
	}
	sent := 0
	for _, m := range msgs {
		err := st.Send(&bytestream.WriteRequest{ResourceName: m.Name, WriteOffset: m.Offset, Data: m.Data, FinishWrite: m.Finish})
		if err != nil {
			// The server ended the call early: the real status comes from CloseAndRecv.
			break
		}
		sent++
	}
	if abort {
		// Abort = RST_STREAM only. CloseAndRecv would first half-close the
		// stream, which can overtake the cancellation and look like a clean
		// end of the upload to the server.
		cancel()
		var resp bytestream.WriteResponse
		err := st.RecvMsg(&resp)
		if err == nil {
			return BSWriteResult{Committed: resp.CommittedSize, Code: codes.OK, Sent: sent}
		}
		return BSWriteResult{Code: status.Code(err), Err: err, Sent: sent, Committed: -999}
	}
	resp, err := st.CloseAndRecv()
	if err != nil {
		return BSWriteResult{Code: status.Code(err), Err: err, Sent: sent, Committed: -999}
	}
	return BSWriteResult{Committed: resp.CommittedSize, Code: codes.OK, Sent: sent}
}

// Chunked splits data into messages at the given cut points.
func Chunked(name string, data []byte, cuts []int, finishLast bool) []WriteMsg {
	var msgs []WriteMsg
	prev := 0
	first := true
	add := func(a, b int) {
		m := WriteMsg{Data: data[a:b], Offset: int64(a)}
		if first {
			m.Name = name
			first = false
		}
		msgs = append(msgs, m)
	}
	for _, c := range cuts {
		if c < prev || c > len(data) {
			continue
		}
		add(prev, c)
		prev = c
	}
	add(prev, len(data))
	if finishLast {
		msgs[len(msgs)-1].Finish = true
	}
	return msgs
}

func FindMissing(s *stack.Stack, instance string, ds []*pb.Digest) ([]*pb.Digest, error) {
	ctx, cancel := Ctx()
	defer cancel()
	r, err := s.CAS.FindMissingBlobs(ctx, &pb.FindMissingBlobsRequest{InstanceName: instance, BlobDigests: ds})
	if err != nil {
		return nil, err
	}
	return r.MissingBlobDigests, nil
}

// Present reports whether FindMissingBlobs considers (hash,size) present.
func Present(s *stack.Stack, hash string, size int64) (bool, error) {
	m, err := FindMissing(s, "", []*pb.Digest{{Hash: hash, SizeBytes: size}})
	if err != nil {
		return false, err
	}
	return len(m) == 0, nil
}

func BatchRead(s *stack.Stack, ds []*pb.Digest, zstd bool) (*pb.BatchReadBlobsResponse, error) {
	ctx, cancel := Ctx()
	defer cancel()
	req := &pb.BatchReadBlobsRequest{Digests: ds}
	if zstd {
		req.AcceptableCompressors = []pb.Compressor_Value{pb.Compressor_ZSTD}
	}
	return s.CAS.BatchReadBlobs(ctx, req)
}

func BatchUpdate(s *stack.Stack, reqs []*pb.BatchUpdateBlobsRequest_Request) (*pb.BatchUpdateBlobsResponse, error) {
	ctx, cancel := Ctx()
	defer cancel()
	return s.CAS.BatchUpdateBlobs(ctx, &pb.BatchUpdateBlobsRequest{Requests: reqs})
}

func ReadName(instance, hash string, size int64, zstd bool) string {
	p := ""
	if instance != "" {
		p = instance + "/"
	}
	if zstd {
		return fmt.Sprintf("%scompressed-blobs/zstd/%s/%d", p, hash, size)
	}
	return fmt.Sprintf("%sblobs/%s/%d", p, hash, size)
}

func WriteName(instance, uuid, hash string, size int64, zstd bool, meta string) string {
	p := ""
	if instance != "" {
		p = instance + "/"
	}
	kind := "blobs"
	if zstd {
		kind = "compressed-blobs/zstd"
	}
	return fmt.Sprintf("%suploads/%s/%s/%s/%d%s", p, uuid, kind, hash, size, meta)
}
