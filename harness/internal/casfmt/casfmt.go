// Package casfmt is an independent reader/writer of bazel-remote's on-disk
// formats, written from the format description (README "storage" notes and
// the header comment of casblob.go), not by calling casblob:
//
//	cas.v2/<hh>/<hash>-<logical size>-<alnum>      compressed CAS blob:
//	    u32le 0x184D2A50 (zstd skippable frame magic)
//	    u32le frame size = size of the rest of the header
//	    i64le uncompressed size
//	    u8    compression type (0 identity, 1 zstd)
//	    u32le chunk size
//	    i64le number of offsets N (= chunks + 1)
//	    N x i64le file offsets of each chunk, last = file length
//	    then one independent zstd frame per chunk
//	cas.v2/<hh>/<hash>-<alnum>.v1                  raw (uncompressed) CAS blob
//	ac.v2/<hh>/<hash>-<alnum>, raw.v2/<hh>/<hash>-<alnum>   raw entries
package casfmt

import (
	"bytes"
	"encoding/binary"
	"fmt"
	"regexp"
	"strconv"

	"verif/harness/internal/gen"
)

const Magic = 0x184D2A50
const fixedHeader = 4 + 4 + 8 + 1 + 4 + 8

type Header struct {
	UncompressedSize int64
	Compression      uint8
	ChunkSize        uint32
	Offsets          []int64
}

// Encode lays data out as a compressed CAS blob with the given chunk size,
// compressing each chunk with enc.
func Encode(data []byte, chunkSize int, enc func([]byte) []byte) []byte {
	if len(data) == 0 {
		panic("casfmt: empty blobs are never stored")
	}
	nchunks := (len(data) + chunkSize - 1) / chunkSize
	var body bytes.Buffer
	offsets := make([]int64, 0, nchunks+1)
	hsize := int64(fixedHeader + 8*(nchunks+1))
	for i := 0; i < nchunks; i++ {
		offsets = append(offsets, hsize+int64(body.Len()))
		end := (i + 1) * chunkSize
		if end > len(data) {
			end = len(data)
		}
		body.Write(enc(data[i*chunkSize : end]))
	}
	offsets = append(offsets, hsize+int64(body.Len()))
	return append(headerBytes(int64(len(data)), 1, uint32(chunkSize), offsets), body.Bytes()...)
}

// EncodeIdentity lays data out as a cas.v2 file with compression type 0.
func EncodeIdentity(data []byte, chunkSize int) []byte {
	hsize := int64(fixedHeader + 16)
	return append(headerBytes(int64(len(data)), 0, uint32(chunkSize), []int64{hsize, hsize + int64(len(data))}), data...)
}

func headerBytes(usize int64, ctype uint8, chunk uint32, offsets []int64) []byte {
	var b bytes.Buffer
	le := binary.LittleEndian
	binary.Write(&b, le, uint32(Magic))
	binary.Write(&b, le, uint32(fixedHeader-8+8*len(offsets)))
	binary.Write(&b, le, usize)
	b.WriteByte(ctype)
	binary.Write(&b, le, chunk)
	binary.Write(&b, le, int64(len(offsets)))
	for _, o := range offsets {
		binary.Write(&b, le, o)
	}
	return b.Bytes()
}

// Parse validates the header bit-exactly against the format.
func Parse(file []byte) (*Header, error) {
	if len(file) < fixedHeader+16 {
		return nil, fmt.Errorf("file of %d bytes is shorter than the smallest header", len(file))
	}
	le := binary.LittleEndian
	if m := le.Uint32(file[0:]); m != Magic {
		return nil, fmt.Errorf("magic %#x, want %#x", m, Magic)
	}
	frame := le.Uint32(file[4:])
	h := &Header{
		UncompressedSize: int64(le.Uint64(file[8:])),
		Compression:      file[16],
		ChunkSize:        le.Uint32(file[17:]),
	}
	n := int64(le.Uint64(file[21:]))
	if n < 2 || n > int64(len(file))/8 {
		return nil, fmt.Errorf("offset count %d", n)
	}
	if int64(frame) != int64(fixedHeader-8)+8*n {
		return nil, fmt.Errorf("skippable frame size %d, want %d for %d offsets", frame, int64(fixedHeader-8)+8*n, n)
	}
	if int64(len(file)) < fixedHeader+8*n {
		return nil, fmt.Errorf("file shorter than its header")
	}
	prev := int64(-1)
	for i := int64(0); i < n; i++ {
		o := int64(le.Uint64(file[fixedHeader+8*i:]))
		if o <= prev {
			return nil, fmt.Errorf("offset table not strictly increasing at %d: %d after %d", i, o, prev)
		}
		h.Offsets = append(h.Offsets, o)
		prev = o
	}
	if h.Offsets[0] != fixedHeader+8*n {
		return nil, fmt.Errorf("first chunk offset %d, header ends at %d", h.Offsets[0], fixedHeader+8*n)
	}
	if prev != int64(len(file)) {
		return nil, fmt.Errorf("last offset %d, file length %d", prev, len(file))
	}
	if h.UncompressedSize <= 0 {
		return nil, fmt.Errorf("uncompressed size %d", h.UncompressedSize)
	}
	if h.ChunkSize == 0 {
		return nil, fmt.Errorf("chunk size 0")
	}
	switch h.Compression {
	case 0:
		if n != 2 {
			return nil, fmt.Errorf("identity blob with %d chunks", n-1)
		}
	case 1:
		want := (h.UncompressedSize + int64(h.ChunkSize) - 1) / int64(h.ChunkSize)
		if n-1 != want {
			return nil, fmt.Errorf("%d chunks for size %d with chunk size %d, want %d", n-1, h.UncompressedSize, h.ChunkSize, want)
		}
	default:
		return nil, fmt.Errorf("compression type %d", h.Compression)
	}
	return h, nil
}

// Decode parses the file and decodes every chunk independently with two
// zstd decoders, checking each chunk's decoded length.
func Decode(file []byte) ([]byte, *Header, error) {
	h, err := Parse(file)
	if err != nil {
		return nil, nil, err
	}
	if h.Compression == 0 {
		data := file[h.Offsets[0]:]
		if int64(len(data)) != h.UncompressedSize {
			return nil, h, fmt.Errorf("identity payload %d bytes, header says %d", len(data), h.UncompressedSize)
		}
		return data, h, nil
	}
	var out bytes.Buffer
	for i := 0; i+1 < len(h.Offsets); i++ {
		chunk, err := gen.DecodeBoth(file[h.Offsets[i]:h.Offsets[i+1]])
		if err != nil {
			return nil, h, fmt.Errorf("chunk %d: %v", i, err)
		}
		want := int64(h.ChunkSize)
		if i+2 == len(h.Offsets) {
			want = h.UncompressedSize - int64(i)*int64(h.ChunkSize)
		}
		if int64(len(chunk)) != want {
			return nil, h, fmt.Errorf("chunk %d decodes to %d bytes, want %d", i, len(chunk), want)
		}
		out.Write(chunk)
	}
	return out.Bytes(), h, nil
}

var (
	reCAS  = regexp.MustCompile(`^cas\.v2/([0-9a-f]{2})/([0-9a-f]{64})-([1-9][0-9]*)-([0-9a-zA-Z]+)$`)
	reCAS1 = regexp.MustCompile(`^cas\.v2/([0-9a-f]{2})/([0-9a-f]{64})-([0-9a-zA-Z]+)\.v1$`)
	reRaw  = regexp.MustCompile(`^(ac|raw)\.v2/([0-9a-f]{2})/([0-9a-f]{64})-([0-9a-zA-Z]+)$`)
)

// Name is a parsed cache file name.
type Name struct {
	Keyspace string // cas | ac | raw
	Hash     string
	Size     int64 // logical size from the name (compressed CAS only), else -1
	Suffix   string
	V1       bool
}

func (n Name) Key() string { return n.Keyspace + "/" + n.Hash }

// ParseName parses a path relative to the cache directory.
func ParseName(rel string) (Name, error) {
	if m := reCAS.FindStringSubmatch(rel); m != nil {
		if m[1] != m[2][:2] {
			return Name{}, fmt.Errorf("%s: sub-directory does not match hash", rel)
		}
		sz, err := strconv.ParseInt(m[3], 10, 64)
		if err != nil {
			return Name{}, err
		}
		return Name{"cas", m[2], sz, m[4], false}, nil
	}
	if m := reCAS1.FindStringSubmatch(rel); m != nil {
		if m[1] != m[2][:2] {
			return Name{}, fmt.Errorf("%s: sub-directory does not match hash", rel)
		}
		return Name{"cas", m[2], -1, m[3], true}, nil
	}
	if m := reRaw.FindStringSubmatch(rel); m != nil {
		if m[2] != m[3][:2] {
			return Name{}, fmt.Errorf("%s: sub-directory does not match hash", rel)
		}
		return Name{m[1], m[3], -1, m[4], false}, nil
	}
	return Name{}, fmt.Errorf("%s: not a v2 cache file name", rel)
}

// FileName builds the relative path of an entry.
func FileName(keyspace, hash string, logical int64, suffix string, v1 bool) string {
	switch {
	case keyspace == "cas" && v1:
		return fmt.Sprintf("cas.v2/%s/%s-%s.v1", hash[:2], hash, suffix)
	case keyspace == "cas":
		return fmt.Sprintf("cas.v2/%s/%s-%d-%s", hash[:2], hash, logical, suffix)
	default:
		return fmt.Sprintf("%s.v2/%s/%s-%s", keyspace, hash[:2], hash, suffix)
	}
}
