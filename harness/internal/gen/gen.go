// Package gen holds the generators shared by several checks. Every random
// choice goes through rapid draws so that cases shrink and replay.
package gen

import (
	"bytes"
	"crypto/sha256"
	"encoding/binary"
	"encoding/hex"
	"fmt"
	"io"

	kpzstd "github.com/klauspost/compress/zstd"
	"github.com/valyala/gozstd"
	"pgregory.net/rapid"
)

const (
	KiB   = 1024
	MiB   = 1024 * 1024
	Chunk = MiB // bazel-remote's default casblob chunk size
)

type Blob struct {
	Data    []byte
	Hash    string
	Size    int64
	SizeCls string
	Content string
}

func SHA(b []byte) string {
	h := sha256.Sum256(b)
	return hex.EncodeToString(h[:])
}

// Expand deterministically expands seed into n bytes of the given content
// class: "rand" (incompressible), "zero", "text" (repetitive), "mixed".
func Expand(seed uint64, n int, content string) []byte {
	out := make([]byte, n)
	switch content {
	case "zero":
		if n > 0 {
			// make distinct seeds distinct blobs: first 8 bytes carry the seed
			var b [8]byte
			binary.LittleEndian.PutUint64(b[:], seed)
			copy(out, b[:])
		}
	case "text":
		words := []string{"bazel", "remote", "cache", "action", "digest", "output", "tree", "blob", "\n", " "}
		var buf bytes.Buffer
		x := seed | 1
		for buf.Len() < n {
			x ^= x << 13
			x ^= x >> 7
			x ^= x << 17
			buf.WriteString(words[x%uint64(len(words))])
		}
		copy(out, buf.Bytes())
	case "mixed":
		fillRand(seed, out)
		// zero every other 4 KiB page
		for off := 0; off < n; off += 8192 {
			end := off + 4096
			if end > n {
				end = n
			}
			for i := off; i < end; i++ {
				out[i] = byte(seed)
			}
		}
		if n > 8 {
			binary.LittleEndian.PutUint64(out[:8], seed)
		}
	default:
		fillRand(seed, out)
	}
	return out
}

func fillRand(seed uint64, out []byte) {
	// SHA-256 in counter mode for the first 64 KiB, then a fast xorshift
	// keyed by it (hashing several MiB per case would dominate the run).
	var ctr [16]byte
	binary.LittleEndian.PutUint64(ctr[:8], seed)
	n := len(out)
	lim := n
	if lim > 64*KiB {
		lim = 64 * KiB
	}
	for off, i := 0, uint64(0); off < lim; off, i = off+32, i+1 {
		binary.LittleEndian.PutUint64(ctr[8:], i)
		h := sha256.Sum256(ctr[:])
		copy(out[off:lim], h[:])
	}
	x := seed*0x9E3779B97F4A7C15 + 0x1234567
	if x == 0 {
		x = 1
	}
	for off := lim; off < n; off += 8 {
		x ^= x << 13
		x ^= x >> 7
		x ^= x << 17
		var b [8]byte
		binary.LittleEndian.PutUint64(b[:], x)
		copy(out[off:], b[:])
	}
}

type sizeClass struct {
	name   string
	lo, hi int
	weight int
}

var sizeClasses = []sizeClass{
	{"0", 0, 0, 2},
	{"1", 1, 1, 4},
	{"2-100", 2, 100, 12},
	{"101-4095", 101, 4094, 8},
	{"4095", 4095, 4095, 3},
	{"4096", 4096, 4096, 3},
	{"4097", 4097, 4097, 3},
	{"4k-64k", 4098, 64*KiB - 2, 8},
	{"64k-1", 64*KiB - 1, 64*KiB - 1, 2},
	{"64k", 64 * KiB, 64 * KiB, 2},
	{"64k+1", 64*KiB + 1, 64*KiB + 1, 2},
	{"64k-1M", 64*KiB + 2, MiB - 2, 4},
	{"1M-1", MiB - 1, MiB - 1, 3},
	{"1M", MiB, MiB, 3},
	{"1M+1", MiB + 1, MiB + 1, 3},
	{"1M-2M", MiB + 2, 2*MiB - 1, 2},
	{"2M", 2 * MiB, 2 * MiB, 2},
	{"2M+k", 2*MiB + 1, 2*MiB + 5000, 2},
	{"3M+k", 3*MiB - 1, 3*MiB + 5000, 1},
}

// SizeClasses returns the names of all size classes up to maxSize.
func drawSize(t *rapid.T, label string, minSize, maxSize int) (int, string) {
	var names []string
	var idx []int
	for i, c := range sizeClasses {
		if c.lo > maxSize || c.hi < minSize {
			continue
		}
		for w := 0; w < c.weight; w++ {
			idx = append(idx, i)
		}
		names = append(names, c.name)
	}
	i := idx[rapid.IntRange(0, len(idx)-1).Draw(t, label+".sizeclass")]
	c := sizeClasses[i]
	lo, hi := c.lo, c.hi
	if lo < minSize {
		lo = minSize
	}
	if hi > maxSize {
		hi = maxSize
	}
	n := lo
	if hi > lo {
		n = rapid.IntRange(lo, hi).Draw(t, label+".size")
	}
	return n, c.name
}

var contents = []string{"rand", "rand", "zero", "text", "text", "mixed"}

// DrawBlob draws a blob with size in [minSize,maxSize].
func DrawBlob(t *rapid.T, label string, minSize, maxSize int) Blob {
	n, cls := drawSize(t, label, minSize, maxSize)
	content := contents[rapid.IntRange(0, len(contents)-1).Draw(t, label+".content")]
	seed := rapid.Uint64().Draw(t, label+".seed")
	return MakeBlob(seed, n, content, cls)
}

func MakeBlob(seed uint64, n int, content, cls string) Blob {
	data := Expand(seed, n, content)
	return Blob{Data: data, Hash: SHA(data), Size: int64(n), SizeCls: cls, Content: content}
}

// DrawSmallBlob draws a blob of at most maxSize bytes from a flat range.
func DrawSmallBlob(t *rapid.T, label string, minSize, maxSize int) Blob {
	n := rapid.IntRange(minSize, maxSize).Draw(t, label+".size")
	content := contents[rapid.IntRange(0, len(contents)-1).Draw(t, label+".content")]
	seed := rapid.Uint64().Draw(t, label+".seed")
	return MakeBlob(seed, n, content, fmt.Sprintf("<=%d", maxSize))
}

// ---------------------------------------------------------------- zstd

var kpEnc = map[int]*kpzstd.Encoder{}
var kpDec *kpzstd.Decoder

func init() {
	var err error
	kpDec, err = kpzstd.NewReader(nil, kpzstd.WithDecoderConcurrency(1), kpzstd.WithDecoderMaxMemory(1<<30))
	if err != nil {
		panic(err)
	}
}

// ZstdGo compresses with klauspost/compress at the given level (1..4).
func ZstdGo(b []byte, level int, crc bool) []byte {
	key := level*2 + map[bool]int{false: 0, true: 1}[crc]
	e := kpEnc[key]
	if e == nil {
		var err error
		e, err = kpzstd.NewWriter(nil, kpzstd.WithEncoderLevel(kpzstd.EncoderLevel(level)), kpzstd.WithEncoderCRC(crc), kpzstd.WithEncoderConcurrency(1))
		if err != nil {
			panic(err)
		}
		kpEnc[key] = e
	}
	return e.EncodeAll(b, nil)
}

// ZstdC compresses with libzstd (cgo) at the given level (1..19).
func ZstdC(b []byte, level int) []byte {
	if len(b) == 0 {
		// gozstd returns an empty slice for empty input, which is not a zstd frame
		return ZstdGo(b, 1, false)
	}
	return gozstd.CompressLevel(nil, b, level)
}

// DecodeBoth decodes a complete zstd stream with two unrelated decoders
// (pure-Go klauspost and reference libzstd). Both must accept and agree.
func DecodeBoth(z []byte) ([]byte, error) {
	a, errA := kpDec.DecodeAll(z, nil)
	var b []byte
	var errB error
	{
		r := gozstd.NewReader(bytes.NewReader(z))
		b, errB = io.ReadAll(r)
		r.Release()
	}
	if errA != nil || errB != nil {
		return nil, fmt.Errorf("zstd decode: klauspost=%v libzstd=%v", errA, errB)
	}
	if !bytes.Equal(a, b) {
		return nil, fmt.Errorf("zstd decoders disagree: %d vs %d bytes", len(a), len(b))
	}
	return a, nil
}

// DecodeStrict reports whether both decoders accept the stream, and the bytes.
func DecodeStrict(z []byte) ([]byte, bool) {
	b, err := DecodeBoth(z)
	return b, err == nil
}

// DecodeEither returns what each decoder makes of the stream.
func DecodeEither(z []byte) (a []byte, errA error, b []byte, errB error) {
	a, errA = kpDec.DecodeAll(z, nil)
	r := gozstd.NewReader(bytes.NewReader(z))
	b, errB = io.ReadAll(r)
	r.Release()
	return
}
