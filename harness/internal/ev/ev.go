// Package ev collects what a check actually explored and writes it out as a
// partial evidence record that the driver (/verif/check) merges into
// /verif/evidence/<id>.json. It also implements the known-findings lookup.
package ev

import (
	"bufio"
	"crypto/sha256"
	"encoding/hex"
	"encoding/json"
	"fmt"
	"os"
	"sort"
	"strings"
	"sync"
	"time"
)

type Collector struct {
	mu          sync.Mutex
	ID          string
	start       time.Time
	evals       int64
	nontriv     map[string]struct{}
	labels      map[string]int64
	samples     []any
	sampleKeys  map[string]struct{}
	maxSamples  int
	knownSigs   map[string]string // sig -> description (from known-findings.txt)
	knownHits   map[string]int64
	excluded    int64
	notes       map[string]int64
	assumptions []string
	rule        string
}

var (
	global   *Collector
	globalMu sync.Mutex
)

// Get returns the process-wide collector for property id.
func Get(id string) *Collector {
	globalMu.Lock()
	defer globalMu.Unlock()
	if global != nil {
		return global
	}
	c := &Collector{
		ID:         id,
		start:      time.Now(),
		nontriv:    map[string]struct{}{},
		labels:     map[string]int64{},
		sampleKeys: map[string]struct{}{},
		maxSamples: 8,
		knownSigs:  map[string]string{},
		knownHits:  map[string]int64{},
		notes:      map[string]int64{},
	}
	c.loadKnown()
	global = c
	return c
}

func (c *Collector) loadKnown() {
	p := os.Getenv("VERIF_KNOWN")
	if p == "" {
		p = "/verif/known-findings.txt"
	}
	f, err := os.Open(p)
	if err != nil {
		return
	}
	defer f.Close()
	sc := bufio.NewScanner(f)
	for sc.Scan() {
		line := strings.TrimSpace(sc.Text())
		if !strings.HasPrefix(line, "known:") {
			continue
		}
		fields := strings.Fields(line)
		var prop, sig string
		rest := []string{}
		for _, f := range fields[1:] {
			switch {
			case strings.HasPrefix(f, "property=") && prop == "":
				prop = strings.TrimPrefix(f, "property=")
			case strings.HasPrefix(f, "sig=") && sig == "":
				sig = strings.TrimPrefix(f, "sig=")
			default:
				rest = append(rest, f)
			}
		}
		if prop == c.ID && sig != "" {
			c.knownSigs[sig] = strings.Join(rest, " ")
		}
	}
}

// SetRule records, in words, how cases are generated and what makes one
// non-trivial / distinct.
func (c *Collector) SetRule(r string) { c.mu.Lock(); c.rule = r; c.mu.Unlock() }

func (c *Collector) Assume(a string) {
	c.mu.Lock()
	defer c.mu.Unlock()
	for _, x := range c.assumptions {
		if x == a {
			return
		}
	}
	c.assumptions = append(c.assumptions, a)
}

// Case records one generated case. fp is a fingerprint of the case (any
// string); it is counted towards distinct_nontrivial only if nontrivial.
func (c *Collector) Case(fp string, nontrivial bool, labels ...string) {
	c.mu.Lock()
	defer c.mu.Unlock()
	c.evals++
	if nontrivial {
		h := sha256.Sum256([]byte(fp))
		c.nontriv[hex.EncodeToString(h[:8])] = struct{}{}
	}
	for _, l := range labels {
		c.labels[l]++
	}
}

// Label increments a histogram bucket without counting a case.
func (c *Collector) Label(l string) { c.mu.Lock(); c.labels[l]++; c.mu.Unlock() }
func (c *Collector) LabelN(l string, n int64) {
	c.mu.Lock()
	c.labels[l] += n
	c.mu.Unlock()
}

// Sample keeps up to maxSamples cases, at most one per class.
func (c *Collector) Sample(class string, v any) {
	c.mu.Lock()
	defer c.mu.Unlock()
	if len(c.samples) >= c.maxSamples {
		return
	}
	if _, ok := c.sampleKeys[class]; ok {
		return
	}
	c.sampleKeys[class] = struct{}{}
	c.samples = append(c.samples, map[string]any{"class": class, "case": v})
}

// Known reports whether sig is a listed known finding of this property; a
// hit is recorded so that the driver prints the KNOWN-FINDING line.
func (c *Collector) Known(sig string) bool {
	c.mu.Lock()
	defer c.mu.Unlock()
	if _, ok := c.knownSigs[sig]; ok {
		c.knownHits[sig]++
		return true
	}
	return false
}

// IsListed reports whether sig is listed, without recording a hit (used by
// generators that exclude a known class by construction).
func (c *Collector) IsListed(sig string) bool {
	c.mu.Lock()
	defer c.mu.Unlock()
	_, ok := c.knownSigs[sig]
	return ok
}

// Excluded counts one case that was steered around a known finding.
func (c *Collector) Excluded() { c.mu.Lock(); c.excluded++; c.mu.Unlock() }

func (c *Collector) Note(n string) { c.mu.Lock(); c.notes[n]++; c.mu.Unlock() }

type Partial struct {
	ID          string            `json:"id"`
	Evals       int64             `json:"evaluations"`
	Nontriv     []string          `json:"nontrivial_fps"`
	Labels      map[string]int64  `json:"labels"`
	Samples     []any             `json:"samples"`
	KnownHits   map[string]int64  `json:"known_hits"`
	KnownDesc   map[string]string `json:"known_desc"`
	Excluded    int64             `json:"excluded_known"`
	Notes       map[string]int64  `json:"notes"`
	Assumptions []string          `json:"assumptions"`
	Rule        string            `json:"rule"`
	WallS       float64           `json:"wall_s"`
}

// Flush writes the partial record to $VERIF_EV_OUT (if set).
func (c *Collector) Flush() {
	out := os.Getenv("VERIF_EV_OUT")
	if out == "" {
		return
	}
	c.mu.Lock()
	defer c.mu.Unlock()
	p := Partial{ID: c.ID, Evals: c.evals, Labels: c.labels, Samples: c.samples,
		KnownHits: c.knownHits, KnownDesc: map[string]string{}, Excluded: c.excluded, Notes: c.notes,
		Assumptions: c.assumptions, Rule: c.rule, WallS: time.Since(c.start).Seconds()}
	for k := range c.nontriv {
		p.Nontriv = append(p.Nontriv, k)
	}
	sort.Strings(p.Nontriv)
	for k := range c.knownHits {
		p.KnownDesc[k] = c.knownSigs[k]
	}
	b, err := json.Marshal(p)
	if err != nil {
		fmt.Fprintln(os.Stderr, "ev: marshal:", err)
		return
	}
	tmp := out + ".tmp"
	if err := os.WriteFile(tmp, b, 0o644); err == nil {
		_ = os.Rename(tmp, out)
	}
}

// Flush flushes the global collector, if any.
func Flush() {
	globalMu.Lock()
	g := global
	globalMu.Unlock()
	if g != nil {
		g.Flush()
	}
}

// Tier returns "quick" or "thorough".
func Tier() string {
	if os.Getenv("VERIF_TIER") == "thorough" {
		return "thorough"
	}
	return "quick"
}
