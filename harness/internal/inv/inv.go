// Package inv holds resource / consistency oracles shared by several checks:
// directory = index, no reservation left, no descriptor open into the cache
// directory, no goroutine parked in request-handling frames.
package inv

import (
	"fmt"
	"os"
	"path/filepath"
	"sort"
	"strings"
	"time"

	"github.com/buchgr/bazel-remote/v2/cache/disk"

	"verif/harness/internal/casfmt"
	"verif/harness/internal/stack"
)

func hashOf(key string) string { return key[strings.IndexByte(key, '/')+1:] }

// Quiesce waits until the deletion backlog is exactly zero.
func Quiesce(s *stack.Stack) error {
	if !s.WaitEvictions(20 * time.Second) {
		return fmt.Errorf("VERIF-INFRA: deletion backlog did not drain within 20s")
	}
	return nil
}

// DirEqualsIndex is the C04 oracle (shallow): set of files = index snapshot.
// The backlog counter counts bytes, so the unlink of a zero-length file (only
// crash images have those) is not visible in it: a mismatch is therefore
// re-examined for up to 2 s before it is reported.
func DirEqualsIndex(s *stack.Stack) error {
	var err error
	for deadline := time.Now().Add(2 * time.Second); ; {
		err = dirEqualsIndexOnce(s)
		if err == nil || time.Now().After(deadline) || strings.HasPrefix(err.Error(), "VERIF-INFRA") {
			return err
		}
		time.Sleep(5 * time.Millisecond)
	}
}

func dirEqualsIndexOnce(s *stack.Stack) error {
	if err := Quiesce(s); err != nil {
		return err
	}
	files := stack.ListFiles(s.Dir)
	want := map[string]disk.VerifEntry{}
	for _, e := range disk.VerifIndexSnapshot(s.Cache) {
		ks := stack.KeyspaceOf(e.Key)
		want[casfmt.FileName(ks, hashOf(e.Key), e.Size, e.Random, e.Legacy)] = e
	}
	var problems []string
	for name, e := range want {
		sz, ok := files[name]
		if !ok {
			problems = append(problems, fmt.Sprintf("indexed entry %s has no file %s", e.Key, name))
		} else if sz != e.SizeOnDisk {
			problems = append(problems, fmt.Sprintf("file %s is %d bytes, index records %d", name, sz, e.SizeOnDisk))
		} else if stack.KeyspaceOf(e.Key) != "cas" && sz != e.Size {
			problems = append(problems, fmt.Sprintf("raw entry %s: file %d bytes, logical size %d", name, sz, e.Size))
		} else if e.Legacy && sz != e.Size {
			problems = append(problems, fmt.Sprintf("raw CAS entry %s: file %d bytes, logical size %d", name, sz, e.Size))
		}
	}
	for name := range files {
		if _, ok := want[name]; !ok {
			problems = append(problems, fmt.Sprintf("file %s is not indexed (leftover)", name))
		}
	}
	if len(problems) > 0 {
		sort.Strings(problems)
		return fmt.Errorf("directory != index: %s", strings.Join(problems, "; "))
	}
	return nil
}

// SettledAccounting is Accounting after giving the server side of an
// aborted request (whose client has already returned) up to max to unwind:
// it polls until the reservation counter is zero, then checks exactly.
func SettledAccounting(s *stack.Stack, maxSize int64, max time.Duration) error {
	deadline := time.Now().Add(max)
	for {
		_, reserved, _, _ := s.Cache.Stats()
		if reserved == 0 || time.Now().After(deadline) {
			break
		}
		time.Sleep(time.Millisecond)
	}
	return Accounting(s, maxSize)
}

// Accounting is the C03 oracle with no request in flight.
func Accounting(s *stack.Stack, maxSize int64) error {
	total, reserved, n, unc := s.Cache.Stats()
	var sd, sl int64
	snap := disk.VerifIndexSnapshot(s.Cache)
	for _, e := range snap {
		sd += (e.SizeOnDisk + 4095) / 4096 * 4096
		sl += (e.Size + 4095) / 4096 * 4096
	}
	if reserved != 0 || total != sd || unc != sl || n != len(snap) || (maxSize > 0 && total > maxSize) {
		return fmt.Errorf("accounting: total=%d reserved=%d items=%d logical=%d; index: n=%d Σdisk=%d Σlogical=%d; max_size=%d", total, reserved, n, unc, len(snap), sd, sl, maxSize)
	}
	return nil
}

// OpenFDsInto lists descriptors of this process that point into dir.
func OpenFDsInto(dir string) []string {
	var out []string
	ents, err := os.ReadDir("/proc/self/fd")
	if err != nil {
		return nil
	}
	for _, e := range ents {
		l, err := os.Readlink(filepath.Join("/proc/self/fd", e.Name()))
		if err == nil && strings.HasPrefix(l, dir+"/") {
			out = append(out, l)
		}
	}
	return out
}

// WaitNoFDs polls until no descriptor points into dir (finalizers and
// deferred closes of a finished request may lag by a scheduling quantum).
func WaitNoFDs(dir string, max time.Duration) []string {
	deadline := time.Now().Add(max)
	for {
		l := OpenFDsInto(dir)
		if len(l) == 0 || time.Now().After(deadline) {
			return l
		}
		time.Sleep(2 * time.Millisecond)
	}
}

// RequestFrames are substrings that only appear in the stack of a goroutine
// that is still working for a request.
var RequestFrames = []string{
	"cache/disk.(*diskCache).get(", "cache/disk.(*diskCache).Put(", "cache/disk.(*diskCache).Contains(",
	"cache/disk.(*diskCache).findMissingCasBlobsInternal", "cache/disk.(*diskCache).GetValidatedActionResult(",
	"server.(*grpcServer).", "server.(*httpCache).", "casblob.GetLegacyZstdReadCloser", "casblob.WriteAndClose",
}

var baseline = map[string]bool{}

// SetBaseline remembers the goroutines that are inside request frames right
// now (left behind by earlier cases); they are not attributed to later requests.
func SetBaseline() {
	baseline = map[string]bool{}
	for _, g := range strings.Split(stack.AllStacks(), "\n\n") {
		for _, f := range RequestFrames {
			if strings.Contains(g, f) {
				if i := strings.IndexByte(g, '['); i > 0 {
					baseline[g[:i]] = true
				}
				break
			}
		}
	}
}

// LeakedRequestGoroutines returns goroutines still inside request frames,
// stable over the polling window (same dump text on consecutive polls).
func LeakedRequestGoroutines(max time.Duration) []string {
	deadline := time.Now().Add(max)
	var last []string
	stableSince := time.Time{}
	for {
		var cur []string
		for _, g := range strings.Split(stack.AllStacks(), "\n\n") {
			for _, f := range RequestFrames {
				if strings.Contains(g, f) {
					if i := strings.IndexByte(g, '['); i > 0 && baseline[g[:i]] {
						break
					}
					cur = append(cur, g)
					break
				}
			}
		}
		if len(cur) == 0 {
			return nil
		}
		if sameIDs(cur, last) {
			if stableSince.IsZero() {
				stableSince = time.Now()
			}
		} else {
			stableSince = time.Time{}
		}
		last = cur
		if time.Now().After(deadline) {
			if !stableSince.IsZero() {
				return cur
			}
			return nil // still changing: not parked
		}
		time.Sleep(20 * time.Millisecond)
	}
}

func ids(gs []string) string {
	var out []string
	for _, g := range gs {
		if i := strings.IndexByte(g, '['); i > 0 {
			out = append(out, g[:i])
		}
	}
	sort.Strings(out)
	return strings.Join(out, ",")
}

func sameIDs(a, b []string) bool { return len(a) == len(b) && ids(a) == ids(b) }
