// Package stack runs the real bazel-remote disk cache, HTTP handler and gRPC
// services in-process: HTTP behind a real net/http server on loopback TCP
// (mounted on a ServeMux the way main.go does) and gRPC over bufconn with a
// harness-owned *grpc.Server whose interceptors record handler panics.
package stack

import (
	"context"
	"fmt"
	"io"
	"log"
	"net"
	"net/http"
	"net/http/httptest"
	"os"
	"path/filepath"
	"runtime"
	"runtime/debug"
	"strings"
	"sync"
	"sync/atomic"
	"time"

	"github.com/buchgr/bazel-remote/v2/cache"
	"github.com/buchgr/bazel-remote/v2/cache/disk"
	asset "github.com/buchgr/bazel-remote/v2/genproto/build/bazel/remote/asset/v1"
	pb "github.com/buchgr/bazel-remote/v2/genproto/build/bazel/remote/execution/v2"
	"github.com/buchgr/bazel-remote/v2/server"

	"google.golang.org/genproto/googleapis/bytestream"
	"google.golang.org/grpc"
	"google.golang.org/grpc/codes"
	"google.golang.org/grpc/credentials/insecure"
	"google.golang.org/grpc/status"
	"google.golang.org/grpc/test/bufconn"
)

type Opts struct {
	Storage      string // "zstd" | "uncompressed"
	Zstd         string // "go" | "cgo"
	MaxSize      int64
	MaxBlob      int64 // 0 => unlimited (MaxInt64)
	HardLimit    int64
	Proxy        cache.Proxy
	ProxyMax     int64 // 0 => unlimited
	NoValidateAC bool  // HTTP: disable_http_ac_validation (=> RAW keyspace)
	NoDepsCheck  bool  // gRPC: disable AC deps check
	Mangle       bool
	Dir          string // reuse this directory (not cleaned on New); "" => fresh scratch
	NoServers    bool   // disk layer only
	Metrics      bool
	// StockGRPCLimits: the gRPC server keeps grpc-go's default 4 MiB receive
	// limit, as the real binary does (the harness otherwise raises it so that
	// its own large requests pass).
	StockGRPCLimits bool
}

type Stack struct {
	abandoned atomic.Bool
	Opts   Opts
	Dir    string
	Cache  disk.Cache
	HTTP   *httptest.Server
	URL    string
	Client *http.Client

	grpcSrv  *grpc.Server
	lis      *bufconn.Listener
	Conn     *grpc.ClientConn
	CAS      pb.ContentAddressableStorageClient
	AC       pb.ActionCacheClient
	Caps     pb.CapabilitiesClient
	BS       bytestream.ByteStreamClient
	Asset    asset.FetchClient
	ownDir   bool
	extra    []*httptest.Server
	panics   atomic.Int64
	panicMu  sync.Mutex
	PanicLog []string
}

var (
	scratchOnce sync.Once
	scratchBase string
	dirSeq      atomic.Int64
	poolMu      sync.Mutex
	pool        []string
)

// ScratchBase returns a per-process scratch directory (tmpfs when possible).
func ScratchBase() string {
	scratchOnce.Do(func() {
		base := os.Getenv("VERIF_SCRATCH")
		if base == "" {
			base = "/dev/shm"
			if st, err := os.Stat(base); err != nil || !st.IsDir() {
				base = os.TempDir()
			}
		}
		d, err := os.MkdirTemp(base, fmt.Sprintf("verif-%d-", os.Getpid()))
		if err != nil {
			d, err = os.MkdirTemp("", "verif-")
			if err != nil {
				panic(err)
			}
		}
		scratchBase = d
	})
	return scratchBase
}

// Cleanup removes the process scratch directory; call from TestMain.
func Cleanup() {
	if scratchBase != "" {
		_ = os.RemoveAll(scratchBase)
	}
}

// FreshDir returns an empty cache directory (possibly a recycled skeleton of
// the 768 sub-directories with every regular file removed).
func FreshDir() string {
	poolMu.Lock()
	if n := len(pool); n > 0 {
		d := pool[n-1]
		pool = pool[:n-1]
		poolMu.Unlock()
		return d
	}
	poolMu.Unlock()
	d := filepath.Join(ScratchBase(), fmt.Sprintf("d%d", dirSeq.Add(1)))
	if err := os.MkdirAll(d, 0o755); err != nil {
		panic(err)
	}
	return d
}

// RecycleDir empties a cache directory of everything except the v2 skeleton
// and returns it to the pool.
func RecycleDir(d string) {
	// The directory comes back under a NEW path. Whatever still refers to the
	// old one - the deletion goroutine of the cache instance that used it (it
	// cannot be stopped), an upload a case gave up waiting for - can then
	// neither create nor unlink anything in the directory's next life (image
	// copies of one live directory even carry the same file names).
	if nd := filepath.Join(ScratchBase(), fmt.Sprintf("d%d", dirSeq.Add(1))); os.Rename(d, nd) == nil {
		d = nd
	} else {
		_ = os.RemoveAll(d)
		return
	}
	ents, err := os.ReadDir(d)
	if err != nil {
		return
	}
	for _, e := range ents {
		n := e.Name()
		if e.IsDir() && (n == "cas.v2" || n == "ac.v2" || n == "raw.v2") {
			subs, _ := os.ReadDir(filepath.Join(d, n))
			for _, s := range subs {
				sp := filepath.Join(d, n, s.Name())
				if !s.IsDir() || len(s.Name()) != 2 {
					_ = os.RemoveAll(sp)
					continue
				}
				files, _ := os.ReadDir(sp)
				for _, f := range files {
					_ = os.RemoveAll(filepath.Join(sp, f.Name()))
				}
			}
			continue
		}
		_ = os.RemoveAll(filepath.Join(d, n))
	}
	poolMu.Lock()
	pool = append(pool, d)
	poolMu.Unlock()
}

var silent = log.New(io.Discard, "", 0)

func init() {
	// The code under test logs through the global logger.
	if os.Getenv("VERIF_LOG") == "" {
		log.SetOutput(io.Discard)
	}
}

func diskOpts(o Opts) []disk.Option {
	opts := []disk.Option{disk.WithAccessLogger(silent)}
	if o.Storage != "" {
		opts = append(opts, disk.WithStorageMode(o.Storage))
	}
	if o.Zstd != "" {
		opts = append(opts, disk.WithZstdImplementation(o.Zstd))
	}
	if o.MaxBlob > 0 {
		opts = append(opts, disk.WithMaxBlobSize(o.MaxBlob))
	}
	if o.HardLimit > 0 {
		opts = append(opts, disk.WithMaxSizeHardLimit(o.HardLimit))
	}
	if o.Proxy != nil {
		opts = append(opts, disk.WithProxyBackend(o.Proxy))
	}
	if o.ProxyMax > 0 {
		opts = append(opts, disk.WithProxyMaxBlobSize(o.ProxyMax))
	}
	if o.Metrics {
		opts = append(opts, disk.WithEndpointMetrics())
	}
	return opts
}

// New builds a stack. The error is non-nil only if disk.New fails.
func New(o Opts) (*Stack, error) {
	s := &Stack{Opts: o}
	if o.Dir == "" {
		s.Dir = FreshDir()
		s.ownDir = true
	} else {
		s.Dir = o.Dir
	}
	if o.MaxSize == 0 {
		o.MaxSize = 1 << 30
	}
	c, err := disk.New(s.Dir, o.MaxSize, diskOpts(o)...)
	if err != nil {
		if s.ownDir {
			RecycleDir(s.Dir)
		}
		return nil, err
	}
	s.Cache = c
	if o.NoServers {
		return s, nil
	}
	maxBlob := o.MaxBlob
	if maxBlob <= 0 {
		maxBlob = 1<<63 - 1
	}

	// HTTP, mounted like main.go: "/status" and "/" on a ServeMux.
	h := server.NewHTTPCache(c, silent, silent, !o.NoValidateAC, o.Mangle, false, false, "", "", maxBlob)
	mux := http.NewServeMux()
	mux.HandleFunc("/status", h.StatusPageHandler)
	mux.HandleFunc("/", s.recoverHTTP(h.CacheHandler))
	s.HTTP = httptest.NewUnstartedServer(mux)
	s.HTTP.Config.ErrorLog = silent
	s.HTTP.Start()
	s.URL = s.HTTP.URL
	s.Client = &http.Client{Transport: &http.Transport{DisableCompression: true, MaxIdleConnsPerHost: 4}, Timeout: 60 * time.Second}

	// gRPC over bufconn.
	s.lis = bufconn.Listen(4 << 20)
	gopts := []grpc.ServerOption{grpc.ChainUnaryInterceptor(s.unaryRecover), grpc.ChainStreamInterceptor(s.streamRecover)}
	if !o.StockGRPCLimits {
		gopts = append(gopts, grpc.MaxRecvMsgSize(64<<20))
	}
	s.grpcSrv = grpc.NewServer(gopts...)
	lis, gsrv := s.lis, s.grpcSrv
	started := make(chan struct{})
	go func() {
		close(started)
		_ = server.ServeGRPC(lis, gsrv, !o.NoDepsCheck, o.Mangle, true, maxBlob, c, silent, silent)
	}()
	<-started
	conn, err := grpc.NewClient("passthrough://bufnet",
		grpc.WithTransportCredentials(insecure.NewCredentials()),
		grpc.WithContextDialer(func(context.Context, string) (net.Conn, error) { return s.lis.Dial() }),
		grpc.WithDefaultCallOptions(grpc.MaxCallRecvMsgSize(64<<20), grpc.MaxCallSendMsgSize(64<<20)))
	if err != nil {
		panic(err)
	}
	s.Conn = conn
	s.CAS = pb.NewContentAddressableStorageClient(conn)
	s.AC = pb.NewActionCacheClient(conn)
	s.Caps = pb.NewCapabilitiesClient(conn)
	s.BS = bytestream.NewByteStreamClient(conn)
	s.Asset = asset.NewFetchClient(conn)
	return s, nil
}

func (s *Stack) notePanic(where string, r any) {
	s.panics.Add(1)
	s.panicMu.Lock()
	if len(s.PanicLog) < 5 {
		st := string(debug.Stack())
		if len(st) > 3000 {
			st = st[:3000]
		}
		s.PanicLog = append(s.PanicLog, fmt.Sprintf("%s: %v\n%s", where, r, st))
	}
	s.panicMu.Unlock()
}

// Panics returns how many handler panics were recovered by the harness (in
// production there is no recovery: a gRPC handler panic kills the process).
func (s *Stack) Panics() int64 { return s.panics.Load() }

func (s *Stack) recoverHTTP(h http.HandlerFunc) http.HandlerFunc {
	return func(w http.ResponseWriter, r *http.Request) {
		defer func() {
			if rec := recover(); rec != nil {
				if rec == http.ErrAbortHandler {
					panic(rec)
				}
				s.notePanic("http "+r.Method+" "+r.URL.Path, rec)
				panic(http.ErrAbortHandler)
			}
		}()
		h(w, r)
	}
}

func (s *Stack) unaryRecover(ctx context.Context, req any, info *grpc.UnaryServerInfo, handler grpc.UnaryHandler) (resp any, err error) {
	defer func() {
		if rec := recover(); rec != nil {
			s.notePanic(info.FullMethod, rec)
			err = status.Error(codes.Aborted, "VERIF-RECOVERED-PANIC")
		}
	}()
	return handler(ctx, req)
}

func (s *Stack) streamRecover(srv any, ss grpc.ServerStream, info *grpc.StreamServerInfo, handler grpc.StreamHandler) (err error) {
	defer func() {
		if rec := recover(); rec != nil {
			s.notePanic(info.FullMethod, rec)
			err = status.Error(codes.Aborted, "VERIF-RECOVERED-PANIC")
		}
	}()
	return handler(srv, ss)
}

// StopServers shuts the front ends down but leaves cache and directory.
func (s *Stack) StopServers() {
	if s.Conn != nil {
		_ = s.Conn.Close()
		s.Conn = nil
	}
	if s.grpcSrv != nil {
		s.grpcSrv.Stop()
		s.grpcSrv = nil
	}
	for _, e := range s.extra {
		e.CloseClientConnections()
		e.Close()
	}
	s.extra = nil
	if s.HTTP != nil {
		if t, ok := s.Client.Transport.(*http.Transport); ok {
			t.CloseIdleConnections()
		}
		s.HTTP.CloseClientConnections()
		s.HTTP.Close()
		s.HTTP = nil
	}
}

// Close shuts everything down and recycles the directory if the stack owns it.
func (s *Stack) Close() {
	s.StopServers()
	if s.Cache != nil && s.Opts.Proxy != nil {
		disk.VerifStopProxyWorkers(s.Cache)
	}
	s.WaitEvictions(5 * time.Second)
	if s.ownDir && !s.abandoned.Load() {
		RecycleDir(s.Dir)
	}
}

// Abandon marks the stack as having requests in flight that the case gave up
// waiting for: its directory is then not handed to a later case, where the
// stragglers' files would show up as orphans.
func (s *Stack) Abandon() { s.abandoned.Store(true) }

// WaitEvictions polls until the deletion backlog is exactly zero.
func (s *Stack) WaitEvictions(max time.Duration) bool {
	deadline := time.Now().Add(max)
	for disk.VerifQueuedEvictionBytes(s.Cache) != 0 {
		if time.Now().After(deadline) {
			return false
		}
		time.Sleep(200 * time.Microsecond)
	}
	// The counter is decremented after the unlink, so 0 means all unlinked.
	return true
}

// ListFiles returns every regular file under the cache dir, relative path -> size.
func ListFiles(dir string) map[string]int64 {
	out := map[string]int64{}
	_ = filepath.Walk(dir, func(p string, info os.FileInfo, err error) error {
		if err != nil {
			return nil
		}
		if info.Mode().IsRegular() {
			rel, _ := filepath.Rel(dir, p)
			out[filepath.ToSlash(rel)] = info.Size()
		}
		return nil
	})
	return out
}

// KeyspaceOf returns "cas"/"ac"/"raw" for a lookup key.
func KeyspaceOf(key string) string {
	if i := strings.IndexByte(key, '/'); i > 0 {
		return key[:i]
	}
	return key
}

// AllStacks returns the full goroutine dump (buffer grown as needed).
func AllStacks() string {
	n := 1 << 20
	for {
		buf := make([]byte, n)
		m := runtime.Stack(buf, true)
		if m < n {
			return string(buf[:m])
		}
		n *= 4
	}
}

// GoroutinesWith returns the dump blocks of goroutines whose stack mentions substr.
func GoroutinesWith(substr string) []string {
	var out []string
	for _, g := range strings.Split(AllStacks(), "\n\n") {
		if strings.Contains(g, substr) {
			out = append(out, g)
		}
	}
	return out
}

// AddHTTP mounts a second HTTP front end (with or without action-cache
// validation) on the same cache, the way a second bazel-remote flag set-up
// would, and returns its base URL. It is shut down by StopServers/Close.
func (s *Stack) AddHTTP(noValidateAC bool) string {
	maxBlob := s.Opts.MaxBlob
	if maxBlob <= 0 {
		maxBlob = 1<<63 - 1
	}
	h := server.NewHTTPCache(s.Cache, silent, silent, !noValidateAC, s.Opts.Mangle, false, false, "", "", maxBlob)
	mux := http.NewServeMux()
	mux.HandleFunc("/status", h.StatusPageHandler)
	mux.HandleFunc("/", s.recoverHTTP(h.CacheHandler))
	srv := httptest.NewUnstartedServer(mux)
	srv.Config.ErrorLog = silent
	srv.Start()
	s.extra = append(s.extra, srv)
	return srv.URL
}
