// Package sched is a cooperative scheduler over the verif yield points of
// cache/disk (plus harness-side yield points inside upload readers and
// download consumers). Registered tasks run one at a time: each runs until
// its next yield point (or its end), then the schedule - a sequence of
// choices drawn by rapid - decides which parked task advances. The
// background remover is a task too: it parks before each unlink.
package sched

import (
	"bytes"
	"fmt"
	"runtime"
	"strconv"
	"sync"
	"time"
)

func gid() int64 {
	var buf [64]byte
	n := runtime.Stack(buf[:], false)
	// "goroutine 123 ["
	b := buf[:n]
	b = b[len("goroutine "):]
	i := bytes.IndexByte(b, ' ')
	id, _ := strconv.ParseInt(string(b[:i]), 10, 64)
	return id
}

type Task struct {
	Name     string
	resume   chan struct{}
	ParkedAt string
	Done     bool
	parked   bool
	Trace    []string
}

type Sched struct {
	mu       sync.Mutex
	byGID    map[int64]*Task
	tasks    []*Task
	evictor  *Task
	notify   chan struct{}
	active   bool
	Log      []string
	Switches int

	// BatchQueued, when set, tells whether a batch of evicted entries is waiting
	// for the remover goroutine. Together with the remover's own yield points
	// (before each unlink, after each batch) it makes "the remover has work" an
	// exact fact instead of a matter of timing, so that schedules replay.
	BatchQueued func() bool
	evInBatch   bool // the remover is between "evict.unlink" of some entry and "evict.batchdone"
}

func New() *Sched {
	return &Sched{byGID: map[int64]*Task{}, notify: make(chan struct{}, 1024)}
}

func (s *Sched) ping() {
	select {
	case s.notify <- struct{}{}:
	default:
	}
}

// Go registers f as a task; it starts parked at "start".
func (s *Sched) Go(name string, f func()) *Task {
	t := &Task{Name: name, resume: make(chan struct{})}
	s.mu.Lock()
	s.tasks = append(s.tasks, t)
	s.mu.Unlock()
	go func() {
		s.mu.Lock()
		s.byGID[gid()] = t
		t.parked, t.ParkedAt = true, "start"
		s.mu.Unlock()
		s.ping()
		<-t.resume
		f()
		s.mu.Lock()
		t.Done, t.parked = true, false
		delete(s.byGID, gid())
		s.mu.Unlock()
		s.ping()
	}()
	return t
}

// Yield is the hook: called at every yield point by whatever goroutine gets there.
func (s *Sched) Yield(point string) {
	s.mu.Lock()
	if !s.active {
		s.mu.Unlock()
		return
	}
	t := s.byGID[gid()]
	if t == nil {
		if point == "evict.unlink" {
			if s.evictor == nil {
				s.evictor = &Task{Name: "remover", resume: make(chan struct{})}
			}
			t = s.evictor
			s.evInBatch = true
		} else {
			if point == "evict.batchdone" {
				s.evInBatch = false
				s.mu.Unlock()
				s.ping()
				return
			}
			s.mu.Unlock()
			return
		}
	}
	t.parked, t.ParkedAt = true, point
	t.Trace = append(t.Trace, point)
	s.mu.Unlock()
	s.ping()
	<-t.resume
}

// Run drives the schedule until every registered task is done. choose picks
// among the currently parked tasks. It returns an error on a suspected deadlock.
func (s *Sched) Run(choose func(parked []*Task) int, backlog func() int64) error {
	s.mu.Lock()
	s.active = true
	s.mu.Unlock()
	defer func() {
		// let the remover run freely again
		s.mu.Lock()
		s.active = false
		ev := s.evictor
		var wake bool
		if ev != nil && ev.parked {
			ev.parked = false
			wake = true
		}
		s.mu.Unlock()
		if wake {
			ev.resume <- struct{}{}
		}
	}()
	var running *Task
	deadline := time.Now().Add(30 * time.Second)
	for {
		s.mu.Lock()
		alldone := true
		var parked []*Task
		for _, t := range s.tasks {
			if !t.Done {
				alldone = false
			}
			if t.parked {
				parked = append(parked, t)
			}
		}
		runningBusy := running != nil && !running.Done && !running.parked
		var starting *Task
		for _, t := range s.tasks {
			// a task whose goroutine has not reached its first park yet: the set of
			// choices must not depend on how fast goroutines start
			if t != running && !t.Done && !t.parked {
				runningBusy, starting = true, t
			}
		}
		evParked := s.evictor != nil && s.evictor.parked
		s.mu.Unlock()
		if alldone {
			return nil
		}
		if runningBusy {
			if time.Now().After(deadline) {
				who := running
				if who == nil || who.Done || who.parked {
					who = starting
				}
				return fmt.Errorf("task %q neither parked nor finished within 30s (last yield %q)", who.Name, who.ParkedAt)
			}
			select {
			case <-s.notify:
			case <-time.After(50 * time.Millisecond):
			}
			continue
		}
		if s.BatchQueued != nil {
			// exact: the remover has work iff it is inside a batch or a batch is queued
			s.mu.Lock()
			inBatch := s.evInBatch
			s.mu.Unlock()
			if !evParked && (inBatch || s.BatchQueued()) {
				// it is on its way to its next yield point (or to the end of the batch)
				if time.Now().After(deadline) {
					return fmt.Errorf("the remover has work but did not reach a yield point within 30s")
				}
				select {
				case <-s.notify:
				case <-time.After(time.Millisecond):
				}
				continue
			}
		} else if backlog != nil && backlog() > 0 && !evParked {
			w := time.Now().Add(100 * time.Millisecond)
			for time.Now().Before(w) && backlog() > 0 {
				s.mu.Lock()
				evParked = s.evictor != nil && s.evictor.parked
				s.mu.Unlock()
				if evParked {
					break
				}
				time.Sleep(200 * time.Microsecond)
			}
		}
		if s.BatchQueued == nil && evParked && backlog != nil && backlog() == 0 {
			// Unlinks of zero-length files are invisible in the byte-counting
			// backlog, so whether the remover shows up here would depend on
			// timing: let it through without making it a schedule choice.
			s.mu.Lock()
			s.evictor.parked = false
			s.mu.Unlock()
			s.evictor.resume <- struct{}{}
			time.Sleep(200 * time.Microsecond)
			continue
		}
		if evParked {
			parked = append(parked, s.evictor)
		}
		if len(parked) == 0 {
			if time.Now().After(deadline) {
				return fmt.Errorf("no task is runnable and not all are done")
			}
			select {
			case <-s.notify:
			case <-time.After(20 * time.Millisecond):
			}
			continue
		}
		i := choose(parked)
		t := parked[i]
		if running != nil && t != running {
			s.Switches++
		}
		s.Log = append(s.Log, fmt.Sprintf("%s@%s", t.Name, t.ParkedAt))
		s.mu.Lock()
		t.parked = false
		s.mu.Unlock()
		if t == s.evictor {
			t.resume <- struct{}{}
			// the remover performs one unlink and parks again (or goes idle): it is
			// not "running" in the sense of the loop above; with BatchQueued set the
			// next round waits exactly until it has parked or finished its batch
			if s.BatchQueued == nil {
				time.Sleep(300 * time.Microsecond)
			}
			deadline = time.Now().Add(30 * time.Second)
			continue
		}
		running = t
		deadline = time.Now().Add(30 * time.Second)
		t.resume <- struct{}{}
	}
}
