// Package fproxy is a scripted cache.Proxy: an in-memory backend that can be
// told to fail at any stage of Get / Contains / Put.
package fproxy

import (
	"context"
	"errors"
	"fmt"
	"io"
	"sync"
	"sync/atomic"
	"time"

	"github.com/buchgr/bazel-remote/v2/cache"
)

// Fault describes how the next matching Get behaves.
type Fault struct {
	Kind string // "", "err-before", "notfound", "nil-reader-no-err", "size+1", "size-1", "size-unknown", "stream-err", "clean-eof", "bad-header", "block-until-cancel", "garbage"
	At   int    // byte offset for stream-err / clean-eof
}

type Obj struct {
	Stored  []byte // bytes in the disk format of the storage mode (casblob for CAS in zstd mode)
	Logical int64  // logical size
}

type PutRec struct {
	Kind       cache.EntryKind
	Hash       string
	Logical    int64
	SizeOnDisk int64
	Data       []byte
}

type Proxy struct {
	mu        sync.Mutex
	objs      map[string]Obj
	GetFault  map[string]Fault // key -> fault for Get (consumed once unless Sticky)
	Sticky    bool
	Puts      []PutRec
	GetCalls  []string
	ContCalls []string
	ContDelay func(hash string) time.Duration
	// SizeKnown=false makes Contains/Get report -1 for sizes the way the
	// HTTP/S3 backends do when they cannot learn the logical size cheaply.
	ContainsSizeUnknown bool
	PutFull             bool // simulate a full upload queue: drop uploads silently
	Stream              func() io.Reader // if set, the next Get streams from this reader instead of the stored bytes
	OpenReaders         atomic.Int64
	wg                  sync.WaitGroup
}

func New() *Proxy {
	return &Proxy{objs: map[string]Obj{}, GetFault: map[string]Fault{}}
}

func Key(kind cache.EntryKind, hash string) string { return kind.String() + "/" + hash }

func (p *Proxy) Set(kind cache.EntryKind, hash string, o Obj) {
	p.mu.Lock()
	p.objs[Key(kind, hash)] = o
	p.mu.Unlock()
}

func (p *Proxy) Delete(kind cache.EntryKind, hash string) {
	p.mu.Lock()
	delete(p.objs, Key(kind, hash))
	p.mu.Unlock()
}

func (p *Proxy) Has(kind cache.EntryKind, hash string) (Obj, bool) {
	p.mu.Lock()
	defer p.mu.Unlock()
	o, ok := p.objs[Key(kind, hash)]
	return o, ok
}

func (p *Proxy) SetFault(kind cache.EntryKind, hash string, f Fault) {
	p.mu.Lock()
	p.GetFault[Key(kind, hash)] = f
	p.mu.Unlock()
}

// ClearFaults drops scripted faults that no request has consumed and reports
// how many there were.
func (p *Proxy) ClearFaults() int {
	p.mu.Lock()
	defer p.mu.Unlock()
	n := len(p.GetFault)
	p.GetFault = map[string]Fault{}
	return n
}

func (p *Proxy) NumGets() int  { p.mu.Lock(); defer p.mu.Unlock(); return len(p.GetCalls) }
func (p *Proxy) NumConts() int { p.mu.Lock(); defer p.mu.Unlock(); return len(p.ContCalls) }
func (p *Proxy) PutsCopy() []PutRec {
	p.mu.Lock()
	defer p.mu.Unlock()
	return append([]PutRec{}, p.Puts...)
}
func (p *Proxy) ContCallsCopy() []string {
	p.mu.Lock()
	defer p.mu.Unlock()
	return append([]string{}, p.ContCalls...)
}

// Wait waits for asynchronous uploads to finish.
func (p *Proxy) Wait() { p.wg.Wait() }

func (p *Proxy) Put(ctx context.Context, kind cache.EntryKind, hash string, logicalSize int64, sizeOnDisk int64, rc io.ReadCloser) {
	if p.PutFull {
		_ = rc.Close()
		return
	}
	p.wg.Add(1)
	go func() {
		defer p.wg.Done()
		defer rc.Close()
		data, err := io.ReadAll(rc)
		if err != nil {
			return
		}
		p.mu.Lock()
		p.Puts = append(p.Puts, PutRec{kind, hash, logicalSize, sizeOnDisk, data})
		p.objs[Key(kind, hash)] = Obj{Stored: data, Logical: logicalSize}
		p.mu.Unlock()
	}()
}

var ErrInjected = errors.New("fproxy: injected backend failure")

type faultReader struct {
	p      *Proxy
	data   []byte
	pos    int
	f      Fault
	ctx    context.Context
	closed bool
}

func (r *faultReader) Read(b []byte) (int, error) {
	limit := len(r.data)
	if r.f.Kind == "stream-err" || r.f.Kind == "clean-eof" {
		if r.f.At < limit {
			limit = r.f.At
		}
	}
	if r.pos >= limit {
		switch r.f.Kind {
		case "stream-err":
			return 0, ErrInjected
		case "block-until-cancel":
			<-r.ctx.Done()
			return 0, r.ctx.Err()
		}
		return 0, io.EOF
	}
	n := copy(b, r.data[r.pos:limit])
	// hand out small slices so that faults land mid-copy
	if n > 32*1024 {
		n = 32 * 1024
	}
	r.pos += n
	return n, nil
}

func (r *faultReader) Close() error {
	if !r.closed {
		r.closed = true
		r.p.OpenReaders.Add(-1)
	}
	return nil
}

func (p *Proxy) Get(ctx context.Context, kind cache.EntryKind, hash string, size int64) (io.ReadCloser, int64, error) {
	k := Key(kind, hash)
	p.mu.Lock()
	p.GetCalls = append(p.GetCalls, fmt.Sprintf("%s/%d", k, size))
	o, ok := p.objs[k]
	f, hasF := p.GetFault[k]
	if hasF && !p.Sticky {
		delete(p.GetFault, k)
	}
	p.mu.Unlock()
	switch f.Kind {
	case "err-before":
		return nil, -1, ErrInjected
	case "notfound":
		return nil, -1, nil
	}
	if !ok {
		return nil, -1, nil
	}
	data := o.Stored
	sz := o.Logical
	switch f.Kind {
	case "nil-reader-no-err":
		return nil, sz, nil
	case "size+1":
		sz++
	case "size-1":
		sz--
	case "size-unknown":
		sz = -1
	case "bad-header":
		data = append([]byte{}, data...)
		for i := 0; i < 8 && i < len(data); i++ {
			data[i] ^= 0xA5
		}
	case "garbage":
		data = append([]byte("this is not what was stored"), data...)
	}
	if p.Stream != nil {
		return io.NopCloser(p.Stream()), sz, nil
	}
	p.OpenReaders.Add(1)
	return &faultReader{p: p, data: data, f: f, ctx: ctx}, sz, nil
}

func (p *Proxy) Contains(ctx context.Context, kind cache.EntryKind, hash string, size int64) (bool, int64) {
	k := Key(kind, hash)
	if p.ContDelay != nil {
		if d := p.ContDelay(hash); d > 0 {
			select {
			case <-time.After(d):
			case <-ctx.Done():
			}
		}
	}
	p.mu.Lock()
	p.ContCalls = append(p.ContCalls, fmt.Sprintf("%s/%d", k, size))
	o, ok := p.objs[k]
	p.mu.Unlock()
	if !ok {
		return false, -1
	}
	if p.ContainsSizeUnknown {
		return true, -1
	}
	// honour hash and size like a size-aware backend
	if size >= 0 && size != o.Logical {
		return false, -1
	}
	return true, o.Logical
}
