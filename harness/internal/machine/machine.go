// Package machine is the operation-history state machine over the disk cache
// shared by the C03 (accounting), C04 (directory = index) and C05 (LRU order)
// checks. It drives the real disk.Cache with generated puts, overwrites,
// lookups, failing / held / aborted uploads and scripted backend fetches and
// keeps only harness-side knowledge that is independent of the code under
// test: which requests it holds open (and their declared sizes), the bytes
// it last had accepted per key, and a logical clock of uses.
package machine

import (
	"bytes"
	"context"
	"errors"
	"fmt"
	"io"
	"os"
	"path/filepath"
	"sort"
	"strings"
	"time"

	"github.com/buchgr/bazel-remote/v2/cache"
	"github.com/buchgr/bazel-remote/v2/cache/disk"
	pb "github.com/buchgr/bazel-remote/v2/genproto/build/bazel/remote/execution/v2"
	"google.golang.org/protobuf/proto"
	"pgregory.net/rapid"

	"verif/harness/internal/casfmt"
	"verif/harness/internal/fproxy"
	"verif/harness/internal/gen"
	"verif/harness/internal/stack"
)

const Block = 4096

func Round4k(n int64) int64 { return (n + Block - 1) / Block * Block }

type Cfg struct {
	MaxSize              int64
	Storage              string
	Codec                string
	Proxy                bool
	Held                 bool // allow uploads that stay open across steps
	Failures             bool // allow failing uploads / faulty fetches
	Servers              bool // start HTTP/gRPC front ends (needed for /status)
	HardLimit            int64
	ExcludeRawShortFetch bool // steer around known finding F7 (counted)
}

type span struct{ lo, hi int } // logical-clock interval of the last use

type held struct {
	key   string
	kind  cache.EntryKind
	hash  string
	size  int64
	data  []byte
	gate  *gateReader
	done  chan error
	admit bool // harness-side prediction: reservation taken
}

type M struct {
	// FetchFaults, when set, replaces the fault kinds a failing backend fetch draws from.
	FetchFaults []string
	Cfg         Cfg
	S           *stack.Stack
	P           *fproxy.Proxy
	T           *rapid.T
	Step        int
	Held        []*held
	Use         map[string]span   // key -> last use
	Data        map[string][]byte // key -> bytes last accepted for that key (nil = unknown)
	Log         []string
	Flags       map[string]bool // what this history contained (non-triviality, labels)

	casPool  []gen.Blob
	acKeys   []string
	rawKeys  []string
	Excluded int
}

func kindOf(key string) cache.EntryKind {
	switch {
	case strings.HasPrefix(key, "cas/"):
		return cache.CAS
	case strings.HasPrefix(key, "ac/"):
		return cache.AC
	}
	return cache.RAW
}

func hashOf(key string) string { return key[strings.IndexByte(key, '/')+1:] }

// New builds the cache and draws the pool of keys/blobs for this history.
func New(t *rapid.T, cfg Cfg) *M {
	m := &M{Cfg: cfg, T: t, Use: map[string]span{}, Data: map[string][]byte{}, Flags: map[string]bool{}}
	if cfg.Proxy {
		m.P = fproxy.New()
	}
	o := stack.Opts{Storage: cfg.Storage, Zstd: cfg.Codec, MaxSize: cfg.MaxSize, NoServers: !cfg.Servers, HardLimit: cfg.HardLimit}
	if m.P != nil {
		o.Proxy = m.P
	}
	s, err := stack.New(o)
	if err != nil {
		t.Fatalf("disk.New: %v", err)
	}
	m.S = s
	M := cfg.MaxSize
	// CAS pool: sizes relative to max_size so that every history is under pressure.
	type sc struct {
		name   string
		lo, hi int64
	}
	classes := []sc{{"tiny", 1, 100}, {"blk-1", 4095, 4095}, {"blk", 4096, 4096}, {"blk+1", 4097, 4097}, {"small", 101, 12000},
		{"M/8", M/8 - 50, M/8 + 50}, {"M/3", M/3 - 50, M/3 + 50}, {"M/2", M/2 - 4096, M/2 + 4096}, {"nearM", M - 8192, M - 1}, {"M", M, M}, {"M+1", M + 1, M + 1}, {"2M", 2 * M, 2 * M}}
	weights := []int{3, 1, 1, 1, 3, 4, 4, 3, 2, 1, 1, 1}
	var idx []int
	for i, w := range weights {
		for j := 0; j < w; j++ {
			idx = append(idx, i)
		}
	}
	poolSeed := rapid.Uint64Range(0, 1<<20).Draw(t, "poolSeed")
	for i := 0; i < 7; i++ {
		c := classes[idx[rapid.IntRange(0, len(idx)-1).Draw(t, fmt.Sprintf("cas%d.class", i))]]
		lo, hi := c.lo, c.hi
		if lo < 1 {
			lo = 1
		}
		if hi < lo {
			hi = lo
		}
		n := lo
		if hi > lo {
			n = rapid.Int64Range(lo, hi).Draw(t, fmt.Sprintf("cas%d.size", i))
		}
		content := rapid.SampledFrom([]string{"rand", "text", "zero"}).Draw(t, fmt.Sprintf("cas%d.content", i))
		m.casPool = append(m.casPool, gen.MakeBlob(poolSeed*16+uint64(i), int(n), content, c.name))
	}
	for i := 0; i < 3; i++ {
		m.acKeys = append(m.acKeys, gen.SHA([]byte(fmt.Sprintf("ac-key-%d", i))))
		m.rawKeys = append(m.rawKeys, gen.SHA([]byte(fmt.Sprintf("ac-key-%d", i)))) // same hashes in both keyspaces on purpose
	}
	return m
}

func (m *M) Close() {
	for len(m.Held) > 0 {
		m.release(0, "abort")
	}
	m.S.Close()
}

func (m *M) logf(format string, a ...any) {
	m.Log = append(m.Log, fmt.Sprintf("%d: ", m.Step)+fmt.Sprintf(format, a...))
}

func (m *M) History() string { return strings.Join(m.Log, "\n") }

func (m *M) touch(key string) { m.Use[key] = span{m.Step, m.Step} }
func (m *M) maybeTouch(key string) {
	if u, ok := m.Use[key]; ok {
		m.Use[key] = span{u.lo, m.Step}
	}
}

// R is the harness-side sum of declared sizes of requests it holds open and
// whose reservation must have been admitted.
func (m *M) R() int64 {
	var r int64
	for _, h := range m.Held {
		if h.admit {
			r += h.size
		}
	}
	return r
}

// ------------------------------------------------------------------ gate reader

type gateCmd struct {
	mode string // "ok", "abort", "badtail"
}

type gateReader struct {
	data    []byte
	pos     int
	stopAt  int
	blocked chan struct{}
	cmd     chan gateCmd
	passed  bool
	once    bool
	fail    error
}

var errAbort = errors.New("harness: upload aborted by client")

func (g *gateReader) Read(p []byte) (int, error) {
	if g.fail != nil {
		return 0, g.fail
	}
	if !g.passed && g.pos >= g.stopAt {
		if !g.once {
			g.once = true
			close(g.blocked)
		}
		c := <-g.cmd
		g.passed = true
		switch c.mode {
		case "abort":
			g.fail = errAbort
			return 0, g.fail
		case "badtail":
			rest := append([]byte{}, g.data[g.pos:]...)
			if len(rest) > 0 {
				rest[len(rest)-1] ^= 0x01
			}
			g.data = append(append([]byte{}, g.data[:g.pos]...), rest...)
		}
	}
	if g.pos >= len(g.data) {
		return 0, io.EOF
	}
	lim := len(g.data)
	if !g.passed && g.stopAt < lim {
		lim = g.stopAt
	}
	n := copy(p, g.data[g.pos:lim])
	g.pos += n
	return n, nil
}

// ------------------------------------------------------------------ values

// acValue builds a valid ActionResult referencing CAS pool blobs.
func (m *M) acValue(t *rapid.T) ([]byte, []int) {
	ar := &pb.ActionResult{ExitCode: int32(rapid.IntRange(0, 3).Draw(t, "exit"))}
	nref := rapid.IntRange(0, 3).Draw(t, "nrefs")
	var refs []int
	for i := 0; i < nref; i++ {
		j := rapid.IntRange(0, len(m.casPool)-1).Draw(t, "ref")
		refs = append(refs, j)
		b := m.casPool[j]
		ar.OutputFiles = append(ar.OutputFiles, &pb.OutputFile{Path: fmt.Sprintf("o/%d", i), Digest: &pb.Digest{Hash: b.Hash, SizeBytes: b.Size}})
	}
	pad := rapid.SampledFrom([]int{0, 10, 3000, 5000, 20000}).Draw(t, "pad")
	if pad > 0 {
		ar.StdoutRaw = gen.Expand(uint64(pad), pad, rapid.SampledFrom([]string{"rand", "text"}).Draw(t, "padc"))
	}
	ar.ExecutionMetadata = &pb.ExecutedActionMetadata{Worker: "w"}
	b, err := proto.Marshal(ar)
	if err != nil {
		panic(err)
	}
	return b, refs
}

func (m *M) rawValue(t *rapid.T) []byte {
	n := rapid.SampledFrom([]int{1, 50, 4095, 4096, 4097, 9000, int(m.Cfg.MaxSize / 4), int(m.Cfg.MaxSize/2 + 100)}).Draw(t, "rawSize")
	if n < 1 {
		n = 1
	}
	return gen.Expand(rapid.Uint64Range(0, 3).Draw(t, "rawSeed"), n, "text")
}

// drawTarget picks a (kind, hash, data) to upload.
func (m *M) drawTarget(t *rapid.T) (cache.EntryKind, string, []byte) {
	switch rapid.SampledFrom([]string{"cas", "cas", "cas", "ac", "raw"}).Draw(t, "kind") {
	case "cas":
		b := m.casPool[rapid.IntRange(0, len(m.casPool)-1).Draw(t, "casIdx")]
		return cache.CAS, b.Hash, b.Data
	case "ac":
		v, _ := m.acValue(t)
		return cache.AC, m.acKeys[rapid.IntRange(0, len(m.acKeys)-1).Draw(t, "acIdx")], v
	}
	return cache.RAW, m.rawKeys[rapid.IntRange(0, len(m.rawKeys)-1).Draw(t, "rawIdx")], m.rawValue(t)
}

func (m *M) drawExistingOrNot(t *rapid.T) (cache.EntryKind, string) {
	switch rapid.SampledFrom([]string{"cas", "cas", "cas", "ac", "raw"}).Draw(t, "kind") {
	case "cas":
		return cache.CAS, m.casPool[rapid.IntRange(0, len(m.casPool)-1).Draw(t, "casIdx")].Hash
	case "ac":
		return cache.AC, m.acKeys[rapid.IntRange(0, len(m.acKeys)-1).Draw(t, "acIdx")]
	}
	return cache.RAW, m.rawKeys[rapid.IntRange(0, len(m.rawKeys)-1).Draw(t, "rawIdx")]
}

// Snapshot returns the index entries keyed by lookup key.
func (m *M) Snapshot() map[string]disk.VerifEntry {
	out := map[string]disk.VerifEntry{}
	for _, e := range disk.VerifIndexSnapshot(m.S.Cache) {
		out[e.Key] = e
	}
	return out
}

// ------------------------------------------------------------------ rules

// Put uploads a value; returns (key, logical size, error).
func (m *M) Put(t *rapid.T) (string, int64, error) {
	m.Step++
	kind, hash, data := m.drawTarget(t)
	key := cache.LookupKey(kind, hash)
	_, existed := m.Snapshot()[key]
	err := m.S.Cache.Put(context.Background(), kind, hash, int64(len(data)), bytes.NewReader(data))
	m.logf("put %s size=%d -> %v", short(key), len(data), err)
	if err == nil {
		if existed {
			m.Flags["overwrite"] = true
			if old, ok := m.Data[key]; ok && len(old) != len(data) {
				m.Flags["overwrite-size-change"] = true
			}
		}
		m.Data[key] = data
		m.touch(key)
	} else {
		m.Flags["put-rejected"] = true
	}
	return key, int64(len(data)), err
}

// FailPut performs an upload that must fail after its reservation was taken.
func (m *M) FailPut(t *rapid.T) {
	m.Step++
	kind, hash, data := m.drawTarget(t)
	key := cache.LookupKey(kind, hash)
	mode := rapid.SampledFrom([]string{"short", "long", "readerr", "hash", "nofile"}).Draw(t, "failMode")
	size := int64(len(data))
	var r io.Reader
	var restore func()
	switch mode {
	case "nofile":
		// the file system refuses to create the blob file (here: the shard
		// directory is gone for the duration of the call); a well-formed upload
		// fails after its reservation was taken
		ks := map[cache.EntryKind]string{cache.CAS: "cas.v2", cache.AC: "ac.v2", cache.RAW: "raw.v2"}[kind]
		shard := filepath.Join(m.S.Dir, ks, hash[:2])
		if len(m.Held) > 0 || !m.S.WaitEvictions(10*time.Second) || size == 0 {
			mode, size, r = "short", size+7, bytes.NewReader(data)
			break
		}
		away := shard + ".away"
		if err := os.Rename(shard, away); err != nil {
			mode, size, r = "short", size+7, bytes.NewReader(data)
			break
		}
		restore = func() { _ = os.Rename(away, shard) }
		r = bytes.NewReader(data)
	case "short": // declared more than delivered
		size = int64(len(data)) + int64(rapid.IntRange(1, 5000).Draw(t, "shortBy"))
		r = bytes.NewReader(data)
	case "long": // declared less than delivered
		if len(data) < 2 {
			data = append(data, 1, 2, 3)
		}
		size = int64(len(data)) - 1
		r = bytes.NewReader(data)
	case "readerr":
		k := rapid.IntRange(0, len(data)).Draw(t, "errAt")
		r = io.MultiReader(bytes.NewReader(data[:k]), errReader{})
	case "hash":
		if kind != cache.CAS {
			mode = "short"
			size = int64(len(data)) + 7
			r = bytes.NewReader(data)
			break
		}
		bad := append([]byte{}, data...)
		bad[len(bad)/2] ^= 0x40
		r = bytes.NewReader(bad)
	}
	err := m.S.Cache.Put(context.Background(), kind, hash, size, r)
	if restore != nil {
		restore()
	}
	m.logf("failput[%s] %s declared=%d -> %v", mode, short(key), size, err)
	if err == nil {
		// A "long" AC/RAW upload may legitimately be cut... no: sizes must match.
		t.Fatalf("upload that cannot be valid was accepted (mode=%s key=%s declared=%d actual=%d)\n%s", mode, key, size, len(data), m.History())
	}
	if size <= m.Cfg.MaxSize {
		m.Flags["fail-after-reserve"] = true
	}
}

type errReader struct{}

func (errReader) Read([]byte) (int, error) { return 0, errAbort }

// Hold starts an upload that blocks mid-stream and stays open.
func (m *M) Hold(t *rapid.T) {
	if len(m.Held) >= 3 {
		t.Skip("enough uploads held")
	}
	m.Step++
	kind, hash, data := m.drawTarget(t)
	key := cache.LookupKey(kind, hash)
	size := int64(len(data))
	stop := rapid.IntRange(0, len(data)).Draw(t, "holdAt")
	g := &gateReader{data: data, stopAt: stop, blocked: make(chan struct{}), cmd: make(chan gateCmd, 1)}
	h := &held{key: key, kind: kind, hash: hash, size: size, data: data, gate: g, done: make(chan error, 1)}
	// Harness-side prediction of admission, from the statement: a reservation
	// is taken iff the item fits max_size next to what is already reserved.
	h.admit = size > 0 && size <= m.Cfg.MaxSize && size+m.R() <= m.Cfg.MaxSize
	go func() {
		h.done <- m.S.Cache.Put(context.Background(), kind, hash, size, g)
	}()
	select {
	case <-g.blocked:
	case err := <-h.done:
		// finished without ever blocking (only possible if nothing was read)
		h.done <- err
	case <-time.After(20 * time.Second):
		fmt.Println("VERIF-INFRA: held upload neither blocked nor finished within 20s")
		t.Fatalf("VERIF-INFRA timeout")
	}
	m.Held = append(m.Held, h)
	m.Flags["held"] = true
	m.logf("hold %s size=%d at=%d admit=%v", short(key), size, stop, h.admit)
}

func (m *M) Release(t *rapid.T) {
	if len(m.Held) == 0 {
		t.Skip("nothing held")
	}
	m.Step++
	i := rapid.IntRange(0, len(m.Held)-1).Draw(t, "which")
	mode := rapid.SampledFrom([]string{"ok", "ok", "abort", "badtail"}).Draw(t, "releaseMode")
	m.release(i, mode)
}

func (m *M) release(i int, mode string) {
	h := m.Held[i]
	m.Held = append(m.Held[:i:i], m.Held[i+1:]...)
	h.gate.cmd <- gateCmd{mode}
	var err error
	select {
	case err = <-h.done:
	case <-time.After(30 * time.Second):
		fmt.Println("VERIF-INFRA: released upload did not finish within 30s")
		panic("VERIF-INFRA timeout")
	}
	m.logf("release[%s] %s size=%d -> %v", mode, short(h.key), h.size, err)
	if err == nil {
		if mode == "abort" || (mode == "badtail" && h.kind == cache.CAS && h.gate.pos > 0 && len(h.data) > 0 && h.gate.stopAt < len(h.data)) {
			panic(fmt.Sprintf("aborted/corrupted held upload was accepted: mode=%s key=%s", mode, h.key))
		}
		d := h.gate.data
		m.Data[h.key] = d
		m.touch(h.key)
	} else if h.admit {
		m.Flags["fail-after-reserve"] = true
	}
}

// Get reads an entry (size known or -1); returns whether it hit.
func (m *M) Get(t *rapid.T) {
	m.Step++
	kind, hash := m.drawExistingOrNot(t)
	key := cache.LookupKey(kind, hash)
	size := int64(-1)
	if d, ok := m.Data[key]; ok && rapid.Bool().Draw(t, "sizeKnown") {
		size = int64(len(d))
	} else if kind == cache.CAS && rapid.Bool().Draw(t, "sizeKnown2") {
		for _, b := range m.casPool {
			if b.Hash == hash {
				size = b.Size
			}
		}
	}
	if m.P != nil {
		// with a backend a local miss turns into a fetch: that is Fetch's rule
		if _, ok := m.Snapshot()[key]; !ok {
			t.Skip("local miss with backend: use fetch")
		}
	}
	rc, fs, err := m.S.Cache.Get(context.Background(), kind, hash, size, 0)
	hit := rc != nil && err == nil
	var got []byte
	if rc != nil {
		got, _ = io.ReadAll(rc)
		rc.Close()
	}
	m.logf("get %s size=%d -> hit=%v found=%d err=%v", short(key), size, hit, fs, err)
	if hit {
		m.touch(key)
		m.Flags["lookup-hit"] = true
		if want, ok := m.Data[key]; ok && !bytes.Equal(got, want) {
			t.Fatalf("get %s returned %d bytes that differ from the %d bytes last accepted\n%s", key, len(got), len(want), m.History())
		}
	}
}

func (m *M) Contains(t *rapid.T) {
	m.Step++
	kind, hash := m.drawExistingOrNot(t)
	key := cache.LookupKey(kind, hash)
	size := int64(-1)
	if d, ok := m.Data[key]; ok && rapid.Bool().Draw(t, "sizeKnown") {
		size = int64(len(d))
	}
	if m.P != nil {
		if _, ok := m.Snapshot()[key]; !ok {
			t.Skip("local miss with backend")
		}
	}
	ok, fs := m.S.Cache.Contains(context.Background(), kind, hash, size)
	m.logf("contains %s size=%d -> %v,%d", short(key), size, ok, fs)
	if ok {
		m.touch(key)
		m.Flags["lookup-hit"] = true
	}
}

func (m *M) FindMissing(t *rapid.T) {
	m.Step++
	n := rapid.IntRange(1, 5).Draw(t, "n")
	var ds []*pb.Digest
	var keys []string
	for i := 0; i < n; i++ {
		b := m.casPool[rapid.IntRange(0, len(m.casPool)-1).Draw(t, "casIdx")]
		ds = append(ds, &pb.Digest{Hash: b.Hash, SizeBytes: b.Size})
		keys = append(keys, "cas/"+b.Hash)
	}
	before := m.Snapshot()
	missing, err := m.S.Cache.FindMissingCasBlobs(context.Background(), ds)
	m.logf("findmissing %d digests -> %d missing err=%v", n, len(missing), err)
	for _, k := range keys {
		if _, ok := before[k]; ok {
			m.touch(k)
			m.Flags["lookup-hit"] = true
		}
	}
}

// ValidatedAC performs the action-cache lookup with dependency check.
func (m *M) ValidatedAC(t *rapid.T) {
	m.Step++
	hash := m.acKeys[rapid.IntRange(0, len(m.acKeys)-1).Draw(t, "acIdx")]
	key := "ac/" + hash
	before := m.Snapshot()
	if m.P != nil {
		if _, ok := before[key]; !ok {
			t.Skip("local miss with backend")
		}
	}
	ar, _, err := m.S.Cache.GetValidatedActionResult(context.Background(), hash)
	m.logf("validated-ac %s -> hit=%v err=%v", short(key), ar != nil, err)
	if _, ok := before[key]; ok {
		m.touch(key) // the entry itself was found
	}
	var stored pb.ActionResult
	if d, ok := m.Data[key]; ok && proto.Unmarshal(d, &stored) == nil {
		for _, f := range stored.OutputFiles {
			k := "cas/" + f.Digest.Hash
			if _, ok := before[k]; ok {
				if ar != nil {
					m.touch(k)
					m.Flags["depcheck-hit"] = true
				} else {
					m.maybeTouch(k) // overall miss: which dependencies were looked at first is not fixed
				}
			}
		}
	}
}

// Fetch reads a key that only the backend has, possibly with a fault.
func (m *M) Fetch(t *rapid.T) { m.FetchKV(t) }

// FetchKV is Fetch that also reports the key, its logical size and whether it was a hit.
func (m *M) FetchKV(t *rapid.T) (string, int64, bool) {
	if m.P == nil {
		t.Skip("no backend")
	}
	m.Step++
	kind, hash, data := m.drawTarget(t)
	key := cache.LookupKey(kind, hash)
	if _, ok := m.Snapshot()[key]; ok {
		t.Skip("present locally")
	}
	if int64(len(data)) > m.Cfg.MaxSize {
		t.Skip("larger than the cache")
	}
	stored := data
	if kind == cache.CAS && m.Cfg.Storage == "zstd" {
		stored = casfmt.Encode(data, gen.Chunk, func(b []byte) []byte { return gen.ZstdGo(b, 1, false) })
	}
	m.P.Set(kind, hash, fproxy.Obj{Stored: stored, Logical: int64(len(data))})
	fault := fproxy.Fault{}
	if m.Cfg.Failures {
		kinds := []string{"", "", "err-before", "notfound", "nil-reader-no-err", "size+1", "size-1", "size-unknown", "stream-err", "clean-eof", "bad-header", "garbage"}
		if m.FetchFaults != nil {
			kinds = m.FetchFaults
		}
		fk := rapid.SampledFrom(kinds).Draw(t, "fault")
		fault.Kind = fk
		if fk == "stream-err" || fk == "clean-eof" {
			fault.At = rapid.IntRange(0, len(stored)-1).Draw(t, "faultAt")
		}
		rawEntry := kind != cache.CAS || m.Cfg.Storage != "zstd"
		if rawEntry && (fk == "garbage" || fk == "bad-header") {
			// Headerless entries carry no redundancy: other bytes of the right
			// length would be a bit-flip adversary, which the backend is trusted
			// not to be (C12). Only the length/metadata faults apply to them.
			fault = fproxy.Fault{Kind: "clean-eof", At: len(stored) / 2}
		}
		m.P.SetFault(kind, hash, fault)
	}
	size := int64(-1)
	if rapid.Bool().Draw(t, "sizeKnown") {
		size = int64(len(data))
	}
	rc, fs, err := m.S.Cache.Get(context.Background(), kind, hash, size, 0)
	var got []byte
	var rerr error
	if rc != nil {
		got, rerr = io.ReadAll(rc)
		rc.Close()
	}
	hit := rc != nil && err == nil
	m.logf("fetch[%s@%d] %s size=%d -> hit=%v found=%d err=%v readerr=%v", fault.Kind, fault.At, short(key), size, hit, fs, err, rerr)
	m.Flags["fetch"] = true
	if fault.Kind != "" && fault.Kind != "size-unknown" {
		m.Flags["fetch-fault"] = true
	}
	if hit && rerr == nil {
		if !bytes.Equal(got, data) {
			// wrong bytes are C12's verdict; here only remember that content is unknown
			delete(m.Data, key)
		} else {
			m.Data[key] = data
		}
		m.touch(key)
	} else {
		if _, ok := m.Snapshot()[key]; ok {
			delete(m.Data, key)
			m.maybeTouch(key)
			m.Use[key] = span{m.Step, m.Step}
		}
	}
	m.P.SetFault(kind, hash, fproxy.Fault{})
	return key, int64(len(data)), hit && rerr == nil
}

func short(key string) string {
	if len(key) > 12 {
		i := strings.IndexByte(key, '/')
		return key[:i+1] + key[i+1:i+9]
	}
	return key
}

// ------------------------------------------------------------------ oracles

// CheckAccounting is the C03 invariant: counters = recomputation over the
// index + harness-known reservations.
func (m *M) CheckAccounting(t *rapid.T) {
	total, reserved, n, unc := m.S.Cache.Stats()
	snap := disk.VerifIndexSnapshot(m.S.Cache)
	var sumDisk, sumLogical int64
	for _, e := range snap {
		sumDisk += Round4k(e.SizeOnDisk)
		sumLogical += Round4k(e.Size)
	}
	R := m.R()
	fail := func(format string, a ...any) {
		t.Fatalf("C03 accounting: "+format+"\nstats: total=%d reserved=%d items=%d uncompressed=%d; index: %d entries, Σround4k(onDisk)=%d, Σround4k(logical)=%d; harness-held reservations R=%d; max_size=%d\nhistory:\n%s",
			append(a, total, reserved, n, unc, len(snap), sumDisk, sumLogical, R, m.Cfg.MaxSize, m.History())...)
	}
	if reserved != R {
		fail("reserved bytes %d != %d held by open requests", reserved, R)
	}
	if total != sumDisk+R {
		fail("accounted size %d != entries %d + reservations %d", total, sumDisk, R)
	}
	if total > m.Cfg.MaxSize {
		fail("accounted size %d exceeds max_size", total)
	}
	if total < 0 || reserved < 0 || unc < 0 {
		fail("negative counter")
	}
	if unc != sumLogical {
		fail("logical total %d != Σ %d", unc, sumLogical)
	}
	if n != len(snap) || disk.VerifIndexMapLen(m.S.Cache) != len(snap) {
		fail("item count %d (map %d) != index list length %d", n, disk.VerifIndexMapLen(m.S.Cache), len(snap))
	}
}

// Quiesce releases nothing; it waits for the deletion backlog to be zero.
func (m *M) Quiesce(t *rapid.T) {
	if !m.S.WaitEvictions(20 * time.Second) {
		fmt.Println("VERIF-INFRA: deletion backlog did not drain within 20s")
		t.Fatalf("VERIF-INFRA timeout")
	}
}

// CheckDirectory is the C04 oracle; call only with no request open.
func (m *M) CheckDirectory(t *rapid.T, deep bool) {
	m.Quiesce(t)
	files := stack.ListFiles(m.S.Dir)
	snap := disk.VerifIndexSnapshot(m.S.Cache)
	fail := func(format string, a ...any) {
		var fl []string
		for f, sz := range files {
			fl = append(fl, fmt.Sprintf("%s (%d)", f, sz))
		}
		sort.Strings(fl)
		t.Fatalf("C04 directory: "+format+"\nfiles:\n  %s\nindex: %+v\nhistory:\n%s", append(a, strings.Join(fl, "\n  "), snap, m.History())...)
	}
	want := map[string]disk.VerifEntry{}
	for _, e := range snap {
		ks, hash := stack.KeyspaceOf(e.Key), hashOf(e.Key)
		name := casfmt.FileName(ks, hash, e.Size, e.Random, e.Legacy)
		if _, dup := want[name]; dup {
			fail("two index entries map to %s", name)
		}
		want[name] = e
	}
	for name, e := range want {
		sz, ok := files[name]
		if !ok {
			fail("indexed entry %s has no file %s", e.Key, name)
		}
		if sz != e.SizeOnDisk {
			fail("file %s is %d bytes, index records %d on disk", name, sz, e.SizeOnDisk)
		}
		pn, err := casfmt.ParseName(name)
		if err != nil || pn.Key() != e.Key {
			fail("file name %s does not carry keyspace/key of %s (%v)", name, e.Key, err)
		}
	}
	for name := range files {
		if _, ok := want[name]; !ok {
			fail("file %s is not indexed (leftover)", name)
		}
	}
	if !deep {
		return
	}
	for name, e := range want {
		raw, err := os.ReadFile(filepath.Join(m.S.Dir, name))
		if err != nil {
			fail("read %s: %v", name, err)
		}
		ks, hash := stack.KeyspaceOf(e.Key), hashOf(e.Key)
		switch {
		case ks == "cas" && !e.Legacy:
			data, h, err := casfmt.Decode(raw)
			if err != nil {
				fail("compressed CAS file %s does not parse/decode: %v", name, err)
			}
			if h.UncompressedSize != e.Size || int64(len(data)) != e.Size || gen.SHA(data) != hash {
				fail("compressed CAS file %s: header size %d, decoded %d bytes, sha256 %s; entry %s size %d", name, h.UncompressedSize, len(data), gen.SHA(data), e.Key, e.Size)
			}
		case ks == "cas":
			if int64(len(raw)) != e.Size || gen.SHA(raw) != hash {
				fail("raw CAS file %s: %d bytes sha256 %s; entry size %d", name, len(raw), gen.SHA(raw), e.Size)
			}
		default:
			if int64(len(raw)) != e.Size {
				fail("%s file %s is %d bytes but the entry's logical size is %d (incomplete)", ks, name, len(raw), e.Size)
			}
			if wantData, ok := m.Data[e.Key]; ok && !bytes.Equal(raw, wantData) {
				fail("%s file %s does not hold the bytes last accepted for %s (%d vs %d bytes)", ks, name, e.Key, len(raw), len(wantData))
			}
		}
	}
}

// RealDiskTotal is Σ round4k(actual file size) over indexed entries, taken
// from the file system rather than from the index.
func (m *M) RealDiskTotal() (int64, map[string]int64) {
	per := map[string]int64{}
	var total int64
	for _, e := range disk.VerifIndexSnapshot(m.S.Cache) {
		name := casfmt.FileName(stack.KeyspaceOf(e.Key), hashOf(e.Key), e.Size, e.Random, e.Legacy)
		sz := e.SizeOnDisk
		if st, err := os.Stat(filepath.Join(m.S.Dir, name)); err == nil {
			sz = st.Size()
		}
		per[e.Key] = sz
		total += Round4k(sz)
	}
	return total, per
}

// LRUObservation is what C05 needs around one operation.
type LRUObservation struct {
	Before     map[string]disk.VerifEntry
	BeforeReal map[string]int64
	TotalReal  int64
}

func (m *M) ObserveBefore() LRUObservation {
	tot, per := m.RealDiskTotal()
	return LRUObservation{Before: m.Snapshot(), BeforeReal: per, TotalReal: tot}
}

// CheckLRU verifies the C05 invariants for the operation just executed.
// incoming = key written by the operation ("" for lookups), logical = its
// logical size, accepted = whether the write was acknowledged.
func (m *M) CheckLRU(t *rapid.T, ob LRUObservation, op string, incoming string, logical int64, accepted bool) (evicted int) {
	m.Quiesce(t)
	after := m.Snapshot()
	_, afterReal := m.RealDiskTotal()
	M := m.Cfg.MaxSize
	fail := func(format string, a ...any) {
		t.Fatalf("C05 "+op+": "+format+"\nmax_size=%d\nhistory:\n%s", append(a, M, m.History())...)
	}
	var victims []string
	var W int64
	for k, e := range ob.Before {
		ne, ok := after[k]
		if k == incoming {
			continue // replaced (or kept) version of the key being written
		}
		if !ok {
			victims = append(victims, k)
			W += Round4k(ob.BeforeReal[k])
			continue
		}
		if ne.Random != e.Random {
			fail("entry %s changed its file although it was not written", k)
		}
	}
	// oversize: rejected, nothing evicted
	if incoming != "" && logical > M {
		if accepted {
			fail("item of logical size %d > max_size accepted", logical)
		}
		if len(victims) > 0 {
			fail("rejected oversize item (%d bytes) evicted %v", logical, victims)
		}
		return 0
	}
	if incoming == "" && len(victims) > 0 {
		fail("a lookup evicted %v", victims)
	}
	if len(victims) == 0 {
		if incoming != "" && accepted {
			if _, ok := after[incoming]; !ok {
				fail("accepted upload %s is not present immediately afterwards", incoming)
			}
		}
		if incoming != "" && !accepted && logical <= M/2 && m.R() == 0 && !strings.HasPrefix(op, "failput") {
			fail("well-formed upload of %d bytes (<= max_size/2) was rejected", logical)
		}
		return 0
	}
	// pressure only
	var newReal, oldReal int64
	if accepted {
		newReal = Round4k(afterReal[incoming])
	}
	if _, ok := ob.Before[incoming]; ok {
		oldReal = Round4k(ob.BeforeReal[incoming])
	}
	need := logical
	if accepted && newReal-oldReal > need {
		need = newReal - oldReal
	}
	if !accepted {
		// a rejected/failed upload may have evicted for its reservation (logical size) only
		need = logical
	}
	if ob.TotalReal+need <= M {
		fail("evicted %v although the incoming item fitted: on-disk total before %d + need %d <= max_size", victims, ob.TotalReal, need)
	}
	// order: no victim may be certainly more recently used than a survivor
	lastVictim, lastHi := "", -1
	for _, v := range victims {
		uv := m.Use[v]
		if uv.hi > lastHi {
			lastHi, lastVictim = uv.hi, v
		}
		for k := range after {
			if k == incoming {
				continue
			}
			if _, was := ob.Before[k]; !was {
				continue
			}
			uk := m.Use[k]
			if uv.lo > uk.hi {
				fail("evicted %s (last used at step %d) while the less recently used %s (last used at step %d) survives", v, uv.lo, k, uk.hi)
			}
		}
	}
	// minimality: putting the most recently used victim back would not fit.
	// Several victims can be "the most recent one" as far as the history tells
	// (one FindMissingBlobs call touches many entries in one step): the check
	// fires only when it does for every candidate, i.e. for the largest one.
	maxLo := -1
	for _, v := range victims {
		if m.Use[v].lo > maxLo {
			maxLo = m.Use[v].lo
		}
	}
	rstar := int64(-1)
	for _, v := range victims {
		if r := Round4k(ob.BeforeReal[v]); m.Use[v].hi >= maxLo && r > rstar {
			rstar, lastVictim = r, v
		}
	}
	_ = lastHi
	if ob.TotalReal-W+rstar+need <= M {
		fail("evicted more than needed: victims %v (Σ %d); without evicting %s (%d) the item (need %d) would still fit: %d - %d + %d + %d <= max_size",
			victims, W, lastVictim, rstar, need, ob.TotalReal, W, rstar, need)
	}
	if accepted {
		if _, ok := after[incoming]; !ok {
			fail("accepted upload %s is not present immediately afterwards", incoming)
		}
	}
	return len(victims)
}
