// Package rt wires rapid to the driver's environment: case counts per tier,
// seed derivation from VERIF_SEED and the shard number, and replay files.
package rt

import (
	"flag"
	"fmt"
	"hash/fnv"
	"os"
	"regexp"
	"runtime"
	"strconv"
	"strings"
	"testing"
	"time"

	"verif/harness/internal/ev"
	"verif/harness/internal/stack"

	"pgregory.net/rapid"
)

func envInt(name string, dflt int64) int64 {
	if v := os.Getenv(name); v != "" {
		if n, err := strconv.ParseInt(v, 10, 64); err == nil {
			return n
		}
	}
	return dflt
}

// Seed returns the rapid seed for a named sub-check: a pure function of
// VERIF_SEED, the shard number and the name (never 0, which means "random").
func Seed(name string) uint64 {
	s := uint64(envInt("VERIF_SEED", 1))
	shard := uint64(envInt("VERIF_SHARD", 0))
	h := fnv.New64a()
	h.Write([]byte(name))
	v := s*1000003 + shard*7919 + h.Sum64()%1000
	if v == 0 {
		v = 1
	}
	return v & 0x7fffffffffffffff
}

// N picks the per-process case count for the tier. VERIF_CHECKS_SCALE (a
// percentage) lets the driver scale all counts.
func N(quick, thorough int) int {
	n := quick
	if ev.Tier() == "thorough" {
		n = thorough
	}
	if sc := envInt("VERIF_CHECKS_SCALE", 100); sc != 100 {
		n = int(int64(n) * sc / 100)
	}
	if n < 1 {
		n = 1
	}
	return n
}

// Check runs prop under rapid with n cases (or replays VERIF_REPLAY if its
// test name matches).
func Check(t *testing.T, n int, prop func(*rapid.T)) {
	t.Helper()
	_ = flag.Set("rapid.checks", strconv.Itoa(n))
	_ = flag.Set("rapid.seed", strconv.FormatUint(Seed(t.Name()), 10))
	_ = flag.Set("rapid.failfile", "")
	_ = flag.Set("rapid.shrinktime", os.Getenv("VERIF_SHRINKTIME"))
	if os.Getenv("VERIF_SHRINKTIME") == "" {
		_ = flag.Set("rapid.shrinktime", "45s")
	}
	if rp := os.Getenv("VERIF_REPLAY"); rp != "" {
		if want := os.Getenv("VERIF_REPLAY_TEST"); want != "" && want != t.Name() {
			t.Skip("replay targets another test")
		}
		_ = flag.Set("rapid.failfile", rp)
	}
	rapid.Check(t, prop)
}

// livenessIsTheProperty: checks whose property says that requests end (C14),
// that reads keep being served (C17), that concurrent requests do not wedge
// the cache (C07) or that a backend fault degrades to a miss or an error
// (C12). For them a request that sits on the cache's mutex for minutes IS the
// violation; for every other check it only means that nothing can be decided.
var livenessIsTheProperty = map[string]bool{"C07": true, "C12": true, "C14": true, "C17": true}

var stuckRE = regexp.MustCompile(`^goroutine \d+ \[(sync\.Mutex\.Lock|sync\.RWMutex\.R?Lock|semacquire), (\d+) minutes\]`)

// watchdog ends the process when a goroutine has been waiting for a mutex
// inside the code under test for two minutes or more: such a run would
// otherwise sit there until the test deadline and say nothing.
func watchdog(id string) {
	for {
		time.Sleep(20 * time.Second)
		buf := make([]byte, 1<<20)
		for {
			n := runtime.Stack(buf, true)
			if n < len(buf) {
				buf = buf[:n]
				break
			}
			buf = make([]byte, 2*len(buf))
		}
		for _, g := range strings.Split(string(buf), "\n\n") {
			m := stuckRE.FindStringSubmatch(g)
			if m == nil {
				continue
			}
			if mins, _ := strconv.Atoi(m[2]); mins < 2 {
				continue
			}
			if !strings.Contains(g, "bazel-remote/v2/cache/disk.") && !strings.Contains(g, "bazel-remote/v2/server.") {
				continue
			}
			ev.Flush()
			if livenessIsTheProperty[id] {
				fmt.Printf("a request has been waiting for a lock of the cache for %s minutes (a lock that is never released, or a deadlock): nothing is served any more\n%s\n", m[2], g)
				fmt.Println("VERIF-TEST-EXIT 1 (watchdog)")
				os.Exit(1)
			}
			fmt.Printf("VERIF-INFRA: a request has been waiting for a lock of the cache for %s minutes; this check cannot decide its property on such a tree\n%s\n", m[2], g)
			os.Exit(2)
		}
	}
}

// Main is the TestMain body shared by all check packages.
func Main(m *testing.M, id string) {
	ev.Get(id)
	go watchdog(id)
	code := m.Run()
	ev.Flush()
	stack.Cleanup()
	if code != 0 {
		fmt.Println("VERIF-TEST-EXIT", code)
	}
	os.Exit(code)
}
