// Package rt wires rapid to the driver's environment: case counts per tier,
// seed derivation from VERIF_SEED and the shard number, and replay files.
package rt

import (
	"flag"
	"fmt"
	"hash/fnv"
	"os"
	"strconv"
	"testing"

	"verif/harness/internal/ev"
	"verif/harness/internal/stack"

	"pgregory.net/rapid"
)

func envInt(name string, dflt int64) int64 {
	if v := os.Getenv(name); v != "" {
		if n, err := strconv.ParseInt(v, 10, 64); err == nil {
			return n
		}
	}
	return dflt
}

// Seed returns the rapid seed for a named sub-check: a pure function of
// VERIF_SEED, the shard number and the name (never 0, which means "random").
func Seed(name string) uint64 {
	s := uint64(envInt("VERIF_SEED", 1))
	shard := uint64(envInt("VERIF_SHARD", 0))
	h := fnv.New64a()
	h.Write([]byte(name))
	v := s*1000003 + shard*7919 + h.Sum64()%1000
	if v == 0 {
		v = 1
	}
	return v & 0x7fffffffffffffff
}

// N picks the per-process case count for the tier. VERIF_CHECKS_SCALE (a
// percentage) lets the driver scale all counts.
func N(quick, thorough int) int {
	n := quick
	if ev.Tier() == "thorough" {
		n = thorough
	}
	if sc := envInt("VERIF_CHECKS_SCALE", 100); sc != 100 {
		n = int(int64(n) * sc / 100)
	}
	if n < 1 {
		n = 1
	}
	return n
}

// Check runs prop under rapid with n cases (or replays VERIF_REPLAY if its
// test name matches).
func Check(t *testing.T, n int, prop func(*rapid.T)) {
	t.Helper()
	_ = flag.Set("rapid.checks", strconv.Itoa(n))
	_ = flag.Set("rapid.seed", strconv.FormatUint(Seed(t.Name()), 10))
	_ = flag.Set("rapid.failfile", "")
	_ = flag.Set("rapid.shrinktime", os.Getenv("VERIF_SHRINKTIME"))
	if os.Getenv("VERIF_SHRINKTIME") == "" {
		_ = flag.Set("rapid.shrinktime", "45s")
	}
	if rp := os.Getenv("VERIF_REPLAY"); rp != "" {
		if want := os.Getenv("VERIF_REPLAY_TEST"); want != "" && want != t.Name() {
			t.Skip("replay targets another test")
		}
		_ = flag.Set("rapid.failfile", rp)
	}
	rapid.Check(t, prop)
}

// Main is the TestMain body shared by all check packages.
func Main(m *testing.M, id string) {
	ev.Get(id)
	code := m.Run()
	ev.Flush()
	stack.Cleanup()
	if code != 0 {
		fmt.Println("VERIF-TEST-EXIT", code)
	}
	os.Exit(code)
}
