package c20

import (
	"bytes"
	"context"
	"encoding/hex"
	"fmt"
	"io"
	"os"
	"path/filepath"
	"strings"
	"testing"
	"time"

	"github.com/buchgr/bazel-remote/v2/cache"
	"google.golang.org/grpc/codes"
	"pgregory.net/rapid"

	"verif/harness/internal/casfmt"
	"verif/harness/internal/cl"
	"verif/harness/internal/ev"
	"verif/harness/internal/fproxy"
	"verif/harness/internal/gen"
	"verif/harness/internal/rt"
	"verif/harness/internal/stack"
)

func TestMain(m *testing.M) {
	startMITM() // see azure_test.go: must happen before anything dials or verifies a certificate
	rt.Main(m, "C20")
}

var E = ev.Get("C20")

type encSpec struct {
	name string
	f    func([]byte) []byte
}

func drawEncoder(t *rapid.T) encSpec {
	if rapid.Bool().Draw(t, "libzstd") {
		lvl := rapid.SampledFrom([]int{1, 3, 9, 19}).Draw(t, "level")
		return encSpec{fmt.Sprintf("libzstd-%d", lvl), func(b []byte) []byte { return gen.ZstdC(b, lvl) }}
	}
	lvl := rapid.IntRange(1, 4).Draw(t, "kplevel")
	crc := rapid.Bool().Draw(t, "crc")
	return encSpec{fmt.Sprintf("klauspost-%d-crc%v", lvl, crc), func(b []byte) []byte { return gen.ZstdGo(b, lvl, crc) }}
}

func writeFile(dir, rel string, data []byte) error {
	p := filepath.Join(dir, rel)
	if err := os.MkdirAll(filepath.Dir(p), 0o755); err != nil {
		return err
	}
	return os.WriteFile(p, data, 0o644)
}

func readAll(rc io.ReadCloser) []byte {
	defer rc.Close()
	b, _ := io.ReadAll(rc)
	return b
}

// TestC20ReadForeign: files laid out by the independent writer (any chunk
// size, any encoder, any suffix) must be served correctly by this build.
func TestC20ReadForeign(t *testing.T) {
	E.SetRule("read side: blobs encoded by the harness's independent cas.v2 writer with chunk sizes 4 KiB..4 MiB (not only 1 MiB), klauspost levels 1-4 with/without checksum or libzstd levels 1-19, any alphanumeric suffix, plus raw .v1 / ac / raw files, placed in a directory and served by this build in both storage modes and codecs through disk Get/GetZstd (size known/unknown), HTTP GET and ByteStream.Read at offsets around the file's own chunk edges. write side: every file this build writes (and every object it hands to a backend) for generated blobs in both modes/codecs must be accepted by the independent reader: name grammar, bit-exact little-endian header, strictly increasing offset table ending at the file length, each chunk an independent standard zstd frame of the right decoded length, whole file a plain zstd stream that both decoders decode to the original, SHA-256 = name. naming: recorded object / resource names of the HTTP, S3 (in-process gofakes3) and gRPC backends equal the pinned reference function and are injective. Byte-exact golden files guard the independent codec itself. non-trivial: chunk size != 1 MiB, or >=2 chunks, or non-default encoder settings; naming: non-empty prefix; distinct by (chunk size class, encoder, size class, mode pair)")
	rt.Check(t, rt.N(150, 1200), func(t *rapid.T) {
		chunk := rapid.SampledFrom([]int{4096, 4096, 65536, 262144, gen.MiB, gen.MiB, 3 * gen.MiB, 4 * gen.MiB}).Draw(t, "chunkSize")
		maxSz := 3*gen.MiB + 5000
		if chunk <= 65536 {
			maxSz = 20 * chunk // keep the number of chunks (and encoder calls) bounded
		}
		b := gen.DrawBlob(t, "blob", 1, maxSz)
		if chunk > gen.MiB && rapid.Bool().Draw(t, "bigChunkFilled") {
			// a chunk that really holds more than this build's own 1 MiB chunks
			b = gen.MakeBlob(rapid.Uint64Range(0, 50).Draw(t, "bigSeed"), rapid.IntRange(gen.MiB+1, 3*gen.MiB+5000).Draw(t, "bigSize"), rapid.SampledFrom([]string{"rand", "text", "mixed"}).Draw(t, "bigContent"), ">1MiB-in-one-chunk")
		}
		enc := drawEncoder(t)
		suffix := rapid.StringMatching(`[0-9a-zA-Z]{1,12}`).Draw(t, "suffix")
		kind := rapid.SampledFrom([]string{"cas-zstd", "cas-zstd", "cas-zstd", "cas-identity-hdr", "cas-v1", "ac", "raw"}).Draw(t, "kind")
		dir := stack.FreshDir()
		defer stack.RecycleDir(dir)
		var rel string
		var ek cache.EntryKind = cache.CAS
		key := b.Hash
		switch kind {
		case "cas-zstd":
			rel = casfmt.FileName("cas", b.Hash, b.Size, suffix, false)
			if err := writeFile(dir, rel, casfmt.Encode(b.Data, chunk, enc.f)); err != nil {
				t.Fatal(err)
			}
		case "cas-identity-hdr":
			rel = casfmt.FileName("cas", b.Hash, b.Size, suffix, false)
			if err := writeFile(dir, rel, casfmt.EncodeIdentity(b.Data, chunk)); err != nil {
				t.Fatal(err)
			}
		case "cas-v1":
			rel = casfmt.FileName("cas", b.Hash, b.Size, suffix, true)
			if err := writeFile(dir, rel, b.Data); err != nil {
				t.Fatal(err)
			}
		case "ac", "raw":
			ek = cache.AC
			if kind == "raw" {
				ek = cache.RAW
			}
			key = gen.SHA([]byte("some action"))
			rel = casfmt.FileName(kind, key, -1, suffix, false)
			if err := writeFile(dir, rel, b.Data); err != nil {
				t.Fatal(err)
			}
		}
		storage := rapid.SampledFrom([]string{"zstd", "uncompressed"}).Draw(t, "storage")
		codec := rapid.SampledFrom([]string{"go", "cgo"}).Draw(t, "codec")
		s, err := stack.New(stack.Opts{Storage: storage, Zstd: codec, Dir: dir})
		if err != nil {
			t.Fatalf("this build refuses to start on a format-conformant directory (%s): %v", rel, err)
		}
		defer s.Close()
		nchunks := (int(b.Size) + chunk - 1) / chunk
		nontrivial := chunk != gen.MiB || nchunks >= 2 || !strings.HasPrefix(enc.name, "klauspost-1-")
		cc := fmt.Sprint(chunk)
		E.Case(fmt.Sprintf("read|%s|%s|%s|%s|%s/%s", kind, cc, enc.name, b.SizeCls, storage, codec), nontrivial, "side=read", "kind="+kind, "chunk="+cc, "enc="+enc.name, "reader="+storage+"/"+codec, fmt.Sprintf("nchunks>=2=%v", nchunks >= 2))
		E.Sample("read/"+kind+"/"+cc, map[string]any{"file": rel, "chunk_size": chunk, "encoder": enc.name, "size": b.Size, "content": b.Content, "reader": storage + "/" + codec})
		ctxs := fmt.Sprintf("file=%s chunk=%d enc=%s size=%d reader=%s/%s", rel, chunk, enc.name, b.Size, storage, codec)
		n := b.Size
		c := int64(chunk)
		offs := []int64{0, 1, n - 1, n / 2}
		for k := int64(1); k*c <= n+1 && k < 6; k++ {
			offs = append(offs, k*c-1, k*c, k*c+1)
		}
		if ek == cache.CAS {
			for _, off := range offs {
				if off < 0 || off >= n {
					continue
				}
				for _, sz := range []int64{n, -1} {
					rc, fs, err := s.Cache.Get(context.Background(), cache.CAS, key, sz, off)
					if err != nil || rc == nil {
						t.Fatalf("Get(size=%d, offset=%d) of a conformant entry: miss/err %v: %s", sz, off, err, ctxs)
					}
					got := readAll(rc)
					if fs != n || !bytes.Equal(got, b.Data[off:]) {
						t.Fatalf("Get(size=%d, offset=%d): reported size %d, %d bytes (want %d): %s", sz, off, fs, len(got), n-off, ctxs)
					}
				}
				rc, _, err := s.Cache.GetZstd(context.Background(), key, n, off)
				if err != nil || rc == nil {
					t.Fatalf("GetZstd(offset=%d): miss/err %v: %s", off, err, ctxs)
				}
				dec, derr := gen.DecodeBoth(readAll(rc))
				if derr != nil || !bytes.Equal(dec, b.Data[off:]) {
					t.Fatalf("GetZstd(offset=%d): decodes to %d bytes (%v), want %d: %s", off, len(dec), derr, n-off, ctxs)
				}
			}
			if r := cl.HTTPGet(s, "/cas/"+key, nil); r.Code != 200 || !bytes.Equal(r.Body, b.Data) {
				t.Fatalf("HTTP GET: %d, %d bytes: %s", r.Code, len(r.Body), ctxs)
			}
			off := offs[rapid.IntRange(0, len(offs)-1).Draw(t, "bsOff")]
			if off >= 0 && off < n {
				got, code, err := cl.BSRead(s, cl.ReadName("", key, n, false), off, 0)
				if code != codes.OK || !bytes.Equal(got, b.Data[off:]) {
					t.Fatalf("ByteStream.Read(offset=%d): %v %v %d bytes: %s", off, code, err, len(got), ctxs)
				}
				gotz, code, err := cl.BSRead(s, cl.ReadName("", key, n, true), off, 0)
				dec, derr := gen.DecodeBoth(gotz)
				if code != codes.OK || derr != nil || !bytes.Equal(dec, b.Data[off:]) {
					t.Fatalf("compressed ByteStream.Read(offset=%d): %v %v %v: %s", off, code, err, derr, ctxs)
				}
			}
		} else {
			rc, fs, err := s.Cache.Get(context.Background(), ek, key, -1, 0)
			if err != nil || rc == nil {
				t.Fatalf("Get of a conformant %s entry: %v: %s", kind, err, ctxs)
			}
			if got := readAll(rc); fs != n || !bytes.Equal(got, b.Data) {
				t.Fatalf("%s entry: size %d, %d bytes: %s", kind, fs, len(got), ctxs)
			}
		}
	})
}

// TestC20WriteConforms: every file this build writes must be readable by an
// independent implementation of the format.
func TestC20WriteConforms(t *testing.T) {
	rt.Check(t, rt.N(150, 1200), func(t *rapid.T) {
		storage := rapid.SampledFrom([]string{"zstd", "zstd", "uncompressed"}).Draw(t, "storage")
		codec := rapid.SampledFrom([]string{"go", "cgo"}).Draw(t, "codec")
		px := fproxy.New()
		s, err := stack.New(stack.Opts{Storage: storage, Zstd: codec, Proxy: px, NoServers: true})
		if err != nil {
			t.Fatal(err)
		}
		defer s.Close()
		b := gen.DrawBlob(t, "blob", 1, 3*gen.MiB+5000)
		kind := rapid.SampledFrom([]cache.EntryKind{cache.CAS, cache.CAS, cache.CAS, cache.AC, cache.RAW}).Draw(t, "kind")
		key := b.Hash
		if kind != cache.CAS {
			key = gen.SHA([]byte("k"))
		}
		// the file is written by an upload, or by a fetch from the backend (the
		// request then may or may not state the size)
		origin := rapid.SampledFrom([]string{"upload", "upload", "fetch-size-known", "fetch-size-unknown"}).Draw(t, "origin")
		if origin == "upload" {
			if err := s.Cache.Put(context.Background(), kind, key, b.Size, bytes.NewReader(b.Data)); err != nil {
				t.Fatal(err)
			}
		} else {
			st := b.Data
			if kind == cache.CAS && storage == "zstd" {
				st = casfmt.Encode(b.Data, gen.Chunk, func(x []byte) []byte { return gen.ZstdGo(x, 1, false) })
			}
			px.Set(kind, key, fproxy.Obj{Stored: st, Logical: b.Size})
			size := b.Size
			if origin == "fetch-size-unknown" {
				size = -1
			}
			rc, _, err := s.Cache.Get(context.Background(), kind, key, size, 0)
			if err != nil || rc == nil {
				t.Fatalf("fetch through the backend failed: %v", err)
			}
			got, _ := io.ReadAll(rc)
			rc.Close()
			if !bytes.Equal(got, b.Data) {
				t.Fatalf("fetch through the backend returned other bytes")
			}
			E.Label("written-by=" + origin)
		}
		px.Wait()
		files := stack.ListFiles(s.Dir)
		if len(files) != 1 {
			t.Fatalf("expected exactly one file, found %v", files)
		}
		var rel string
		for f := range files {
			rel = f
		}
		raw, _ := os.ReadFile(filepath.Join(s.Dir, rel))
		nontrivial := b.Size > int64(gen.Chunk) || codec == "cgo" || storage == "uncompressed"
		E.Case(fmt.Sprintf("write|%s|%s/%s|%s", kind, storage, codec, b.SizeCls), nontrivial, "side=write", "kind="+kind.String(), "writer="+storage+"/"+codec, "size="+b.SizeCls)
		E.Sample("write/"+kind.String()+"/"+storage, map[string]any{"file": rel, "file_bytes": len(raw), "size": b.Size, "writer": storage + "/" + codec})
		ctxs := fmt.Sprintf("file=%s (%d bytes) blob=%d writer=%s/%s", rel, len(raw), b.Size, storage, codec)
		check := func(what string, data []byte) {
			switch {
			case kind == cache.CAS && storage == "zstd":
				dec, h, err := casfmt.Decode(data)
				if err != nil {
					t.Fatalf("%s: independent reader rejects it: %v: %s", what, err, ctxs)
				}
				if h.Compression != 1 || h.UncompressedSize != b.Size || !bytes.Equal(dec, b.Data) {
					t.Fatalf("%s: header %+v, decoded %d bytes: %s", what, h, len(dec), ctxs)
				}
				whole, err := gen.DecodeBoth(data)
				if err != nil || !bytes.Equal(whole, b.Data) {
					t.Fatalf("%s: the whole file is not a plain zstd stream of the blob (%v, %d bytes): %s", what, err, len(whole), ctxs)
				}
			default:
				if !bytes.Equal(data, b.Data) {
					t.Fatalf("%s: raw entry does not hold the bytes verbatim (%d vs %d): %s", what, len(data), len(b.Data), ctxs)
				}
			}
		}
		pn, err := casfmt.ParseName(rel)
		if err != nil {
			t.Fatalf("file name is not in the v2 grammar: %v", err)
		}
		wantV1 := kind == cache.CAS && storage == "uncompressed"
		if pn.Keyspace != kind.String() || pn.Hash != key || pn.V1 != wantV1 || (kind == cache.CAS && !wantV1 && pn.Size != b.Size) {
			t.Fatalf("file name %s does not encode (keyspace=%s hash=%s size=%d v1=%v)", rel, kind, key, b.Size, wantV1)
		}
		check("file on disk", raw)
		if origin != "upload" {
			// the name must also be one the loader accepts: restart on the directory
			s2, err := stack.New(stack.Opts{Storage: storage, Zstd: codec, Dir: s.Dir, NoServers: true})
			if err != nil {
				t.Fatalf("restart on a directory holding a backend-fetched file failed: %v: %s", err, ctxs)
			}
			if ok, _ := s2.Cache.Contains(context.Background(), kind, key, b.Size); !ok {
				t.Fatalf("backend-fetched entry is gone after a restart: %s", ctxs)
			}
			return
		}
		puts := px.PutsCopy()
		if len(puts) != 1 {
			t.Fatalf("accepted upload handed to the backend %d times", len(puts))
		}
		if puts[0].Kind != kind || puts[0].Hash != key || puts[0].Logical != b.Size || puts[0].SizeOnDisk != int64(len(raw)) {
			t.Fatalf("backend hand-off metadata %v/%s/%d/%d: %s", puts[0].Kind, puts[0].Hash, puts[0].Logical, puts[0].SizeOnDisk, ctxs)
		}
		check("object handed to the backend", puts[0].Data)
	})
}

// goldenHello is a complete cas.v2 file for the 11 bytes "hello world",
// assembled by hand from the format description: magic 50 2a 4d 18, frame
// size 0x25 = 37 (8+1+4+8+2*8), uncompressed size 11, type 1 (zstd), chunk
// size 0x100000, 2 offsets (45, 65), then one 20-byte zstd frame (magic
// 28 b5 2f fd, single-segment, content size 11, one raw block).
const goldenHello = "502a4d18" + "25000000" + "0b00000000000000" + "01" + "00001000" + "0200000000000000" +
	"2d00000000000000" + "4100000000000000" +
	"28b52ffd" + "20" + "0b" + "590000" + "68656c6c6f20776f726c64"

// goldenTwoChunks: "abcdefgh" with a chunk size of 4 => two raw-block frames.
const goldenTwoChunks = "502a4d18" + "2d000000" + "0800000000000000" + "01" + "04000000" + "0300000000000000" +
	"3500000000000000" + "4200000000000000" + "4f00000000000000" +
	"28b52ffd" + "20" + "04" + "210000" + "61626364" +
	"28b52ffd" + "20" + "04" + "210000" + "65666768"

func TestC20Golden(t *testing.T) {
	for _, g := range []struct {
		name, hexs, content string
		chunk             uint32
	}{{"hello", goldenHello, "hello world", 1 << 20}, {"two-chunks", goldenTwoChunks, "abcdefgh", 4}} {
		file, err := hex.DecodeString(g.hexs)
		if err != nil {
			t.Fatal(err)
		}
		// the independent reader must accept the hand-made file
		dec, h, err := casfmt.Decode(file)
		if err != nil || string(dec) != g.content || h.ChunkSize != g.chunk {
			t.Fatalf("golden %s: independent reader: %v %q %+v", g.name, err, dec, h)
		}
		hash := gen.SHA([]byte(g.content))
		for _, storage := range []string{"zstd", "uncompressed"} {
			for _, codec := range []string{"go", "cgo"} {
				dir := stack.FreshDir()
				if err := writeFile(dir, casfmt.FileName("cas", hash, int64(len(g.content)), "Gold3n", false), file); err != nil {
					t.Fatal(err)
				}
				s, err := stack.New(stack.Opts{Storage: storage, Zstd: codec, Dir: dir, NoServers: true})
				if err != nil {
					t.Fatalf("golden %s: start: %v", g.name, err)
				}
				for off := int64(0); off < int64(len(g.content)); off++ {
					rc, fs, err := s.Cache.Get(context.Background(), cache.CAS, hash, -1, off)
					if err != nil || rc == nil {
						t.Fatalf("golden %s (%s/%s) offset %d: miss/err %v", g.name, storage, codec, off, err)
					}
					if got := readAll(rc); string(got) != g.content[off:] || fs != int64(len(g.content)) {
						t.Fatalf("golden %s (%s/%s) offset %d: got %q", g.name, storage, codec, off, got)
					}
				}
				E.Case("golden|"+g.name+storage+codec, true, "side=golden")
				s.Close()
				stack.RecycleDir(dir)
			}
		}
	}
	// and the writer of this build, on the same content, must produce a file with the same header fields
	s, err := stack.New(stack.Opts{Storage: "zstd", NoServers: true})
	if err != nil {
		t.Fatal(err)
	}
	defer s.Close()
	content := []byte("hello world")
	if err := s.Cache.Put(context.Background(), cache.CAS, gen.SHA(content), 11, bytes.NewReader(content)); err != nil {
		t.Fatal(err)
	}
	for rel := range stack.ListFiles(s.Dir) {
		raw, _ := os.ReadFile(filepath.Join(s.Dir, rel))
		want, _ := hex.DecodeString(goldenHello)
		if len(raw) < 45 || !bytes.Equal(raw[:37], want[:37]) {
			t.Fatalf("header written by this build differs from the golden header:\n got %x\nwant %x", raw[:min(len(raw), 45)], want[:45])
		}
	}
}

var _ = time.Second
