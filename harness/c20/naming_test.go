package c20

import (
	"bytes"
	"context"
	"fmt"
	"io"
	"log"
	"net"
	"net/http"
	"net/http/httptest"
	"net/url"
	"path"
	"sort"
	"strings"
	"sync"
	"testing"
	"time"

	"github.com/buchgr/bazel-remote/v2/cache"
	"github.com/buchgr/bazel-remote/v2/cache/grpcproxy"
	"github.com/buchgr/bazel-remote/v2/cache/httpproxy"
	"github.com/buchgr/bazel-remote/v2/cache/s3proxy"
	pb "github.com/buchgr/bazel-remote/v2/genproto/build/bazel/remote/execution/v2"
	"github.com/johannesboyne/gofakes3"
	"github.com/johannesboyne/gofakes3/backend/s3mem"
	"github.com/minio/minio-go/v7"
	"github.com/minio/minio-go/v7/pkg/credentials"
	"google.golang.org/genproto/googleapis/bytestream"
	"google.golang.org/grpc"
	"google.golang.org/grpc/credentials/insecure"
	"google.golang.org/grpc/test/bufconn"
	"google.golang.org/protobuf/proto"
	"pgregory.net/rapid"

	"verif/harness/internal/casfmt"
	"verif/harness/internal/gen"
	"verif/harness/internal/rt"
)

var quiet = log.New(io.Discard, "", 0)

// ---- pinned reference naming (README + the literal keys the suite pins) ----

func refHTTP(prefix string, kind cache.EntryKind, hash, mode string) string {
	p := "/" + strings.Trim(prefix, "/")
	if p == "/" {
		p = ""
	}
	if kind == cache.CAS && mode == "zstd" {
		return p + "/cas.v2/" + hash
	}
	return p + "/" + kind.String() + "/" + hash
}

func refS3(prefix string, kind cache.EntryKind, hash, mode string) string {
	base := path.Join(kind.String(), hash[:2], hash)
	if kind == cache.CAS && mode == "zstd" {
		base = path.Join("cas.v2", hash[:2], hash)
	}
	if prefix == "" {
		return base
	}
	return path.Join(prefix, base)
}

type rec struct {
	mu    sync.Mutex
	reqs  []string // "METHOD path"
	store map[string][]byte
}

func (r *rec) ServeHTTP(w http.ResponseWriter, req *http.Request) {
	if req.Method != "PUT" {
		r.mu.Lock()
		r.reqs = append(r.reqs, req.Method+" "+req.URL.Path)
		r.mu.Unlock()
	}
	switch req.Method {
	case "PUT":
		b, _ := io.ReadAll(req.Body)
		r.mu.Lock()
		r.store[req.URL.Path] = b
		r.reqs = append(r.reqs, req.Method+" "+req.URL.Path) // recorded once the object is stored
		r.mu.Unlock()
	case "GET", "HEAD":
		r.mu.Lock()
		b, ok := r.store[req.URL.Path]
		r.mu.Unlock()
		if !ok {
			http.NotFound(w, req)
			return
		}
		w.Header().Set("Content-Length", fmt.Sprint(len(b)))
		if req.Method == "GET" {
			w.Write(b)
		}
	}
}

func (r *rec) has(line string) bool {
	r.mu.Lock()
	defer r.mu.Unlock()
	for _, q := range r.reqs {
		if q == line {
			return true
		}
	}
	return false
}

func waitFor(cond func() bool) bool {
	for i := 0; i < 10000; i++ {
		if cond() {
			return true
		}
		time.Sleep(time.Millisecond)
	}
	return false
}

var prefixes = []string{"", "", "pre", "foo/bar/grok", "team-cache", "a.b_c/d-e"}

func drawTuple(t *rapid.T) (cache.EntryKind, string, []byte, string, string) {
	kind := rapid.SampledFrom([]cache.EntryKind{cache.CAS, cache.CAS, cache.AC, cache.RAW}).Draw(t, "kind")
	data := gen.Expand(rapid.Uint64Range(0, 1<<30).Draw(t, "seed"), rapid.IntRange(1, 300).Draw(t, "size"), "rand")
	hash := gen.SHA(data)
	if kind != cache.CAS {
		hash = gen.SHA(append([]byte("key"), data...))
	}
	mode := rapid.SampledFrom([]string{"zstd", "uncompressed"}).Draw(t, "mode")
	prefix := rapid.SampledFrom(prefixes).Draw(t, "prefix")
	return kind, hash, data, mode, prefix
}

func stored(kind cache.EntryKind, data []byte, mode string) []byte {
	if kind == cache.CAS && mode == "zstd" {
		return casfmt.Encode(data, gen.Chunk, func(b []byte) []byte { return gen.ZstdGo(b, 1, false) })
	}
	return data
}

func TestC20NamingHTTP(t *testing.T) {
	seen := map[string]string{}
	rt.Check(t, rt.N(120, 800), func(t *rapid.T) {
		kind, hash, data, mode, prefix := drawTuple(t)
		r := &rec{store: map[string][]byte{}}
		srv := httptest.NewServer(r)
		defer srv.Close()
		u, _ := url.Parse(srv.URL + "/" + prefix)
		if rapid.Bool().Draw(t, "trailingSlash") && prefix != "" {
			u, _ = url.Parse(srv.URL + "/" + prefix + "/")
		}
		px, err := httpproxy.New(u, mode, &http.Client{}, quiet, quiet, 1, 10)
		if err != nil {
			t.Fatal(err)
		}
		want := refHTTP(prefix, kind, hash, mode)
		E.Case(fmt.Sprintf("name-http|%s|%s|%v", kind, mode, prefix != ""), prefix != "", "side=naming", "backend=http", "mode="+mode, "kind="+kind.String())
		body := stored(kind, data, mode)
		px.Put(context.Background(), kind, hash, int64(len(data)), int64(len(body)), io.NopCloser(bytes.NewReader(body)))
		if !waitFor(func() bool { return r.has("PUT " + want) }) {
			t.Fatalf("HTTP backend: upload of (%s,%s,mode=%s,prefix=%q) did not PUT %s; requests: %v", kind, hash[:8], mode, prefix, want, r.reqs)
		}
		if ok, _ := px.Contains(context.Background(), kind, hash, int64(len(data))); !ok || !r.has("HEAD "+want) {
			t.Fatalf("HTTP backend: Contains did not HEAD %s (ok=%v); requests: %v", want, ok, r.reqs)
		}
		rc, _, err := px.Get(context.Background(), kind, hash, int64(len(data)))
		if err != nil || rc == nil || !r.has("GET "+want) {
			t.Fatalf("HTTP backend: Get did not GET %s: %v; requests: %v", want, err, r.reqs)
		}
		got, _ := io.ReadAll(rc)
		rc.Close()
		if !bytes.Equal(got, body) {
			t.Fatalf("HTTP backend round trip differs")
		}
		tuple := fmt.Sprintf("%s|%s|%s|%s", kind, hash, mode, prefix)
		// injective over (keyspace, hash, prefix) per mode
		k := mode + "|" + want
		if prev, ok := seen[k]; ok && prev != tuple {
			t.Fatalf("HTTP backend name %s is shared by %s and %s", want, prev, tuple)
		}
		seen[k] = tuple
	})
}

func TestC20NamingS3(t *testing.T) {
	seen := map[string]string{}
	rt.Check(t, rt.N(80, 600), func(t *rapid.T) {
		kind, hash, data, mode, prefix := drawTuple(t)
		// 2.x joins prefix and key with path.Join, so prefixes that are not in
		// clean form name the same objects as their cleaned form.
		if rapid.IntRange(0, 2).Draw(t, "uncleanPrefix") == 0 {
			prefix = rapid.SampledFrom([]string{"team-cache/", "builds//ci", "./rel", "a/./b", "x/"}).Draw(t, "uncleanPrefixVal")
		}
		backend := s3mem.New()
		if err := backend.CreateBucket("bkt"); err != nil {
			t.Fatal(err)
		}
		srv := httptest.NewServer(gofakes3.New(backend).Server())
		defer srv.Close()
		host := strings.TrimPrefix(srv.URL, "http://")
		px := s3proxy.New(host, "bkt", minio.BucketLookupPath, prefix, credentials.NewStaticV4("ak", "sk", ""), true, false, "us-east-1", 4, mode, quiet, quiet, 1, 10)
		want := refS3(prefix, kind, hash, mode)
		E.Case(fmt.Sprintf("name-s3|%s|%s|%v", kind, mode, prefix != ""), prefix != "", "side=naming", "backend=s3", "mode="+mode, "kind="+kind.String())
		body := stored(kind, data, mode)
		px.Put(context.Background(), kind, hash, int64(len(data)), int64(len(body)), io.NopCloser(bytes.NewReader(body)))
		list := func() []string {
			var keys []string
			pfx := gofakes3.Prefix{}
			res, err := backend.ListBucket("bkt", &pfx, gofakes3.ListBucketPage{})
			if err == nil {
				for _, c := range res.Contents {
					keys = append(keys, c.Key)
				}
			}
			sort.Strings(keys)
			return keys
		}
		if !waitFor(func() bool { return len(list()) > 0 }) {
			t.Fatalf("S3 backend: nothing uploaded")
		}
		if keys := list(); len(keys) != 1 || keys[0] != want {
			t.Fatalf("S3 backend: (%s,%s,mode=%s,prefix=%q) stored as %v, want [%s]", kind, hash[:8], mode, prefix, keys, want)
		}
		// an object laid out by the reference function must be found
		backend2 := s3mem.New()
		_ = backend2.CreateBucket("bkt")
		srv2 := httptest.NewServer(gofakes3.New(backend2).Server())
		defer srv2.Close()
		mc, err := minio.New(strings.TrimPrefix(srv2.URL, "http://"), &minio.Options{Creds: credentials.NewStaticV4("ak", "sk", ""), Secure: false, BucketLookup: minio.BucketLookupPath, Region: "us-east-1"})
		if err != nil {
			t.Fatal(err)
		}
		if _, err := mc.PutObject(context.Background(), "bkt", want, bytes.NewReader(body), int64(len(body)), minio.PutObjectOptions{}); err != nil {
			t.Fatalf("populating the fake bucket: %v", err)
		}
		px2 := s3proxy.New(strings.TrimPrefix(srv2.URL, "http://"), "bkt", minio.BucketLookupPath, prefix, credentials.NewStaticV4("ak", "sk", ""), true, false, "us-east-1", 4, mode, quiet, quiet, 1, 10)
		if ok, _ := px2.Contains(context.Background(), kind, hash, int64(len(data))); !ok {
			t.Fatalf("S3 backend: object at %s (2.x layout) not found by Contains", want)
		}
		rc, _, err := px2.Get(context.Background(), kind, hash, int64(len(data)))
		if err != nil || rc == nil {
			t.Fatalf("S3 backend: object at %s (2.x layout) not found by Get: %v", want, err)
		}
		got, _ := io.ReadAll(rc)
		rc.Close()
		if !bytes.Equal(got, body) {
			t.Fatalf("S3 backend round trip differs")
		}
		// (spellings of one prefix - "team-cache" and "team-cache/" - are one prefix)
		tuple := fmt.Sprintf("%s|%s|%s|%s", kind, hash, mode, strings.Trim(path.Clean("/"+prefix), "/"))
		k := mode + "|" + want
		if prev, ok := seen[k]; ok && prev != tuple {
			t.Fatalf("S3 object name %s is shared by %s and %s", want, prev, tuple)
		}
		seen[k] = tuple
	})
}

// ---- gRPC backend: record resource names at an in-process REAPI server ----

type recGRPC struct {
	pb.UnimplementedActionCacheServer
	pb.UnimplementedContentAddressableStorageServer
	pb.UnimplementedCapabilitiesServer
	bytestream.UnimplementedByteStreamServer
	mu     sync.Mutex
	names  []string
	blobs  map[string][]byte
	acs    map[string]*pb.ActionResult
}

func (r *recGRPC) note(s string) { r.mu.Lock(); r.names = append(r.names, s); r.mu.Unlock() }
func (r *recGRPC) all() []string { r.mu.Lock(); defer r.mu.Unlock(); return append([]string{}, r.names...) }

func (r *recGRPC) GetCapabilities(context.Context, *pb.GetCapabilitiesRequest) (*pb.ServerCapabilities, error) {
	return &pb.ServerCapabilities{CacheCapabilities: &pb.CacheCapabilities{DigestFunctions: []pb.DigestFunction_Value{pb.DigestFunction_SHA256}, ActionCacheUpdateCapabilities: &pb.ActionCacheUpdateCapabilities{UpdateEnabled: true}, SupportedCompressors: []pb.Compressor_Value{pb.Compressor_ZSTD}}}, nil
}
func (r *recGRPC) Write(srv bytestream.ByteStream_WriteServer) error {
	var buf bytes.Buffer
	name := ""
	for {
		m, err := srv.Recv()
		if err == io.EOF {
			break
		}
		if err != nil {
			return err
		}
		if name == "" {
			name = m.ResourceName
		}
		buf.Write(m.Data)
		if m.FinishWrite {
			break
		}
	}
	r.note("WRITE " + name)
	r.mu.Lock()
	r.blobs[name] = buf.Bytes()
	r.mu.Unlock()
	return srv.SendAndClose(&bytestream.WriteResponse{CommittedSize: int64(buf.Len())})
}
func (r *recGRPC) Read(req *bytestream.ReadRequest, srv bytestream.ByteStream_ReadServer) error {
	r.note("READ " + req.ResourceName)
	return srv.Send(&bytestream.ReadResponse{Data: []byte{}})
}
func (r *recGRPC) FindMissingBlobs(ctx context.Context, req *pb.FindMissingBlobsRequest) (*pb.FindMissingBlobsResponse, error) {
	for _, d := range req.BlobDigests {
		r.note(fmt.Sprintf("FINDMISSING %s/%d inst=%q", d.Hash, d.SizeBytes, req.InstanceName))
	}
	return &pb.FindMissingBlobsResponse{}, nil
}
func (r *recGRPC) UpdateActionResult(ctx context.Context, req *pb.UpdateActionResultRequest) (*pb.ActionResult, error) {
	r.note(fmt.Sprintf("UPDATEAC %s/%d inst=%q", req.ActionDigest.GetHash(), req.ActionDigest.GetSizeBytes(), req.InstanceName))
	return req.ActionResult, nil
}
func (r *recGRPC) GetActionResult(ctx context.Context, req *pb.GetActionResultRequest) (*pb.ActionResult, error) {
	r.note(fmt.Sprintf("GETAC %s inst=%q", req.ActionDigest.GetHash(), req.InstanceName))
	return &pb.ActionResult{ExitCode: 1}, nil
}

func TestC20NamingGRPC(t *testing.T) {
	rt.Check(t, rt.N(80, 600), func(t *rapid.T) {
		kind, hash, data, mode, _ := drawTuple(t)
		r := &recGRPC{blobs: map[string][]byte{}, acs: map[string]*pb.ActionResult{}}
		lis := bufconn.Listen(1 << 20)
		gs := grpc.NewServer()
		pb.RegisterActionCacheServer(gs, r)
		pb.RegisterContentAddressableStorageServer(gs, r)
		pb.RegisterCapabilitiesServer(gs, r)
		bytestream.RegisterByteStreamServer(gs, r)
		go gs.Serve(lis)
		defer gs.Stop()
		conn, err := grpc.NewClient("passthrough://buf", grpc.WithTransportCredentials(insecure.NewCredentials()), grpc.WithContextDialer(func(context.Context, string) (net.Conn, error) { return lis.Dial() }))
		if err != nil {
			t.Fatal(err)
		}
		defer conn.Close()
		px := grpcproxy.New(grpcproxy.NewGrpcClients(conn), mode, quiet, quiet, 1, 10)
		E.Case(fmt.Sprintf("name-grpc|%s|%s", kind, mode), true, "side=naming", "backend=grpc", "mode="+mode, "kind="+kind.String())
		body := stored(kind, data, mode)
		if kind != cache.CAS {
			ar := &pb.ActionResult{ExitCode: 3}
			body, _ = proto.Marshal(ar)
		}
		px.Put(context.Background(), kind, hash, int64(len(data)), int64(len(body)), io.NopCloser(bytes.NewReader(body)))
		var wantW, wantR string
		if kind == cache.CAS {
			if mode == "zstd" {
				wantW, wantR = fmt.Sprintf("/compressed-blobs/zstd/%s/%d", hash, len(data)), fmt.Sprintf("READ compressed-blobs/zstd/%s/%d", hash, len(data))
			} else {
				wantW, wantR = fmt.Sprintf("/blobs/%s/%d", hash, len(data)), fmt.Sprintf("READ blobs/%s/%d", hash, len(data))
			}
			ok := waitFor(func() bool {
				for _, n := range r.all() {
					if strings.HasPrefix(n, "WRITE uploads/") && strings.HasSuffix(n, wantW) && strings.Count(n, "/") == strings.Count(wantW, "/")+1 {
						return true
					}
				}
				return false
			})
			if !ok {
				t.Fatalf("gRPC backend: upload of (%s, mode=%s) did not write uploads/<uuid>%s; saw %v", hash[:8], mode, wantW, r.all())
			}
			rc, _, _ := px.Get(context.Background(), kind, hash, int64(len(data)))
			if rc != nil {
				io.Copy(io.Discard, rc)
				rc.Close()
			}
			found := false
			for _, n := range r.all() {
				if n == wantR {
					found = true
				}
			}
			if !found {
				t.Fatalf("gRPC backend: Get of (%s, mode=%s) did not read %q; saw %v", hash[:8], mode, wantR, r.all())
			}
			px.Contains(context.Background(), kind, hash, int64(len(data)))
			wantF := fmt.Sprintf("FINDMISSING %s/%d inst=\"\"", hash, len(data))
			found = false
			for _, n := range r.all() {
				if n == wantF {
					found = true
				}
			}
			if !found {
				t.Fatalf("gRPC backend: Contains did not ask %q; saw %v", wantF, r.all())
			}
		} else {
			wantU := fmt.Sprintf("UPDATEAC %s/", hash)
			if !waitFor(func() bool {
				for _, n := range r.all() {
					if strings.HasPrefix(n, wantU) && strings.HasSuffix(n, `inst=""`) {
						return true
					}
				}
				return false
			}) {
				t.Fatalf("gRPC backend: AC upload did not call UpdateActionResult for %s; saw %v", hash[:8], r.all())
			}
			rc, _, _ := px.Get(context.Background(), kind, hash, -1)
			if rc != nil {
				rc.Close()
			}
			wantG := fmt.Sprintf("GETAC %s inst=\"\"", hash)
			found := false
			for _, n := range r.all() {
				if n == wantG {
					found = true
				}
			}
			if !found {
				t.Fatalf("gRPC backend: AC Get did not call GetActionResult(%s); saw %v", hash[:8], r.all())
			}
		}
	})
}
