package c20

import (
	"bufio"
	"bytes"
	"context"
	"crypto/ecdsa"
	"crypto/elliptic"
	"crypto/rand"
	"crypto/tls"
	"crypto/x509"
	"crypto/x509/pkix"
	"encoding/pem"
	"fmt"
	"io"
	"math/big"
	"net"
	"net/http"
	"os"
	"path"
	"path/filepath"
	"strings"
	"sync"
	"testing"
	"time"

	"github.com/buchgr/bazel-remote/v2/cache"
	"github.com/buchgr/bazel-remote/v2/cache/azblobproxy"
	"pgregory.net/rapid"

	"verif/harness/internal/rt"
	"verif/harness/internal/stack"
)

// The Azure proxy's constructor hard-wires https://<account>.blob.core.windows.net/.
// To observe the object names it really uses, the test binary routes HTTPS through
// a local CONNECT proxy that terminates TLS with a certificate from a throw-away CA
// (HTTPS_PROXY / SSL_CERT_FILE are read lazily by net/http and crypto/x509, so they
// are set in TestMain before anything dials). Loopback targets are never proxied,
// so the other tests of this package are unaffected.

type azRec struct {
	mu    sync.Mutex
	reqs  []string
	store map[string][]byte
}

var az = &azRec{store: map[string][]byte{}}

func (r *azRec) ServeHTTP(w http.ResponseWriter, req *http.Request) {
	line := req.Method + " " + req.Host + req.URL.Path
	if req.Method != "PUT" {
		r.mu.Lock()
		r.reqs = append(r.reqs, line)
		r.mu.Unlock()
	}
	w.Header().Set("x-ms-request-id", "verif")
	w.Header().Set("x-ms-version", "2023-11-03")
	w.Header().Set("ETag", `"0x1"`)
	w.Header().Set("Last-Modified", time.Now().UTC().Format(http.TimeFormat))
	switch req.Method {
	case "PUT":
		b, _ := io.ReadAll(req.Body)
		r.mu.Lock()
		r.store[req.Host+req.URL.Path] = b
		r.reqs = append(r.reqs, line) // recorded once the object is stored
		r.mu.Unlock()
		w.WriteHeader(201)
	case "GET", "HEAD":
		r.mu.Lock()
		b, ok := r.store[req.Host+req.URL.Path]
		r.mu.Unlock()
		if !ok {
			w.Header().Set("x-ms-error-code", "BlobNotFound")
			w.WriteHeader(404)
			return
		}
		w.Header().Set("Content-Length", fmt.Sprint(len(b)))
		w.Header().Set("Content-Type", "application/octet-stream")
		w.Header().Set("x-ms-blob-type", "BlockBlob")
		w.WriteHeader(200)
		if req.Method == "GET" {
			w.Write(b)
		}
	default:
		w.WriteHeader(400)
	}
}

func (r *azRec) seen(line string) bool {
	r.mu.Lock()
	defer r.mu.Unlock()
	for _, q := range r.reqs {
		if q == line {
			return true
		}
	}
	return false
}

type oneConn struct {
	c    net.Conn
	once sync.Once
	done chan struct{}
}

func (l *oneConn) Accept() (net.Conn, error) {
	var c net.Conn
	l.once.Do(func() { c = l.c })
	if c != nil {
		return c, nil
	}
	<-l.done
	return nil, io.EOF
}
func (l *oneConn) Close() error   { return nil }
func (l *oneConn) Addr() net.Addr { return l.c.LocalAddr() }

type closeNotifyConn struct {
	net.Conn
	done chan struct{}
	once sync.Once
}

func (c *closeNotifyConn) Close() error {
	c.once.Do(func() { close(c.done) })
	return c.Conn.Close()
}

func startMITM() {
	dir := stack.ScratchBase()
	caKey, _ := ecdsa.GenerateKey(elliptic.P256(), rand.Reader)
	caT := &x509.Certificate{SerialNumber: big.NewInt(1), Subject: pkix.Name{CommonName: "verif throw-away CA"}, NotBefore: time.Now().Add(-time.Hour), NotAfter: time.Now().Add(48 * time.Hour), IsCA: true, KeyUsage: x509.KeyUsageCertSign | x509.KeyUsageDigitalSignature, BasicConstraintsValid: true}
	caDER, _ := x509.CreateCertificate(rand.Reader, caT, caT, &caKey.PublicKey, caKey)
	caCert, _ := x509.ParseCertificate(caDER)
	caFile := filepath.Join(dir, "mitm-ca.pem")
	_ = os.WriteFile(caFile, pem.EncodeToMemory(&pem.Block{Type: "CERTIFICATE", Bytes: caDER}), 0o600)
	leafKey, _ := ecdsa.GenerateKey(elliptic.P256(), rand.Reader)
	leafT := &x509.Certificate{SerialNumber: big.NewInt(2), Subject: pkix.Name{CommonName: "*.blob.core.windows.net"}, DNSNames: []string{"*.blob.core.windows.net"}, NotBefore: time.Now().Add(-time.Hour), NotAfter: time.Now().Add(48 * time.Hour),
		KeyUsage: x509.KeyUsageDigitalSignature, ExtKeyUsage: []x509.ExtKeyUsage{x509.ExtKeyUsageServerAuth}}
	leafDER, _ := x509.CreateCertificate(rand.Reader, leafT, caCert, &leafKey.PublicKey, caKey)
	tcfg := &tls.Config{Certificates: []tls.Certificate{{Certificate: [][]byte{leafDER}, PrivateKey: leafKey}}}
	l, err := net.Listen("tcp", "127.0.0.1:0")
	if err != nil {
		panic(err)
	}
	go func() {
		for {
			c, err := l.Accept()
			if err != nil {
				return
			}
			go func(c net.Conn) {
				br := bufio.NewReader(c)
				req, err := http.ReadRequest(br)
				if err != nil || req.Method != "CONNECT" {
					c.Close()
					return
				}
				fmt.Fprint(c, "HTTP/1.1 200 Connection established\r\n\r\n")
				tc := tls.Server(c, tcfg)
				cn := &closeNotifyConn{Conn: tc, done: make(chan struct{})}
				srv := &http.Server{Handler: az}
				_ = srv.Serve(&oneConn{c: cn, done: cn.done})
			}(c)
		}
	}()
	os.Setenv("HTTPS_PROXY", "http://"+l.Addr().String())
	os.Setenv("https_proxy", "http://"+l.Addr().String())
	os.Setenv("SSL_CERT_FILE", caFile)
	os.Unsetenv("SSL_CERT_DIR")
	os.Unsetenv("NO_PROXY")
	os.Unsetenv("no_proxy")
}

func refAzure(prefix string, kind cache.EntryKind, hash, mode string) string {
	base := path.Join(kind.String(), hash[:2], hash)
	if kind == cache.CAS && mode == "zstd" {
		base = path.Join("cas.v2", hash[:2], hash)
	}
	if prefix == "" {
		return base
	}
	// 2.x applies the prefix twice for Azure (once inside the key function, once
	// at each call site); existing containers are laid out that way.
	return prefix + "/" + path.Join(prefix, base)
}

func TestC20NamingAzure(t *testing.T) {
	seen := map[string]string{}
	rt.Check(t, rt.N(60, 500), func(t *rapid.T) {
		kind, hash, data, mode, prefix := drawTuple(t)
		account := rapid.SampledFrom([]string{"acct", "verifstore"}).Draw(t, "account")
		container := rapid.SampledFrom([]string{"cont", "bazel-cache"}).Draw(t, "container")
		px := azblobproxy.New(account, container, prefix, nil, "", false, mode, quiet, quiet, 1, 10)
		host := account + ".blob.core.windows.net"
		want := "/" + container + "/" + refAzure(prefix, kind, hash, mode)
		E.Case(fmt.Sprintf("name-azure|%s|%s|%v", kind, mode, prefix != ""), prefix != "", "side=naming", "backend=azure", "mode="+mode, "kind="+kind.String())
		body := stored(kind, data, mode)
		f, err := os.CreateTemp(stack.ScratchBase(), "azup")
		if err != nil {
			t.Fatal(err)
		}
		f.Write(body)
		f.Seek(0, 0)
		defer os.Remove(f.Name())
		px.Put(context.Background(), kind, hash, int64(len(data)), int64(len(body)), f)
		if !waitFor(func() bool { return az.seen("PUT " + host + want) }) {
			az.mu.Lock()
			last := append([]string{}, az.reqs[max(0, len(az.reqs)-5):]...)
			az.mu.Unlock()
			t.Fatalf("Azure backend: upload of (%s,%s,mode=%s,prefix=%q) did not PUT %s%s; last requests: %v", kind, hash[:8], mode, prefix, host, want, last)
		}
		if ok, _ := px.Contains(context.Background(), kind, hash, int64(len(data))); !ok || !az.seen("HEAD "+host+want) {
			t.Fatalf("Azure backend: Contains did not HEAD %s%s (ok=%v)", host, want, ok)
		}
		rc, _, err := px.Get(context.Background(), kind, hash, int64(len(data)))
		if err != nil || rc == nil || !az.seen("GET "+host+want) {
			t.Fatalf("Azure backend: Get did not GET %s%s: %v", host, want, err)
		}
		got, _ := io.ReadAll(rc)
		rc.Close()
		if !bytes.Equal(got, body) {
			t.Fatalf("Azure backend round trip differs (%d vs %d bytes)", len(got), len(body))
		}
		tuple := fmt.Sprintf("%s|%s|%s|%s", kind, hash, mode, prefix)
		k := mode + "|" + host + want
		if prev, ok := seen[k]; ok && prev != tuple {
			t.Fatalf("Azure object name %s is shared by %s and %s", want, prev, tuple)
		}
		seen[k] = tuple
	})
}

var _ = strings.TrimSpace
