package c12

import (
	"bytes"
	"context"
	"fmt"
	"io"
	"log"
	"net"
	"net/http"
	"net/http/httptest"
	"net/url"
	"strings"
	"sync"
	"sync/atomic"
	"testing"
	"time"

	"github.com/buchgr/bazel-remote/v2/cache"
	"github.com/buchgr/bazel-remote/v2/cache/disk"
	"github.com/buchgr/bazel-remote/v2/cache/grpcproxy"
	"github.com/buchgr/bazel-remote/v2/cache/httpproxy"
	pb "github.com/buchgr/bazel-remote/v2/genproto/build/bazel/remote/execution/v2"
	"google.golang.org/genproto/googleapis/bytestream"
	"google.golang.org/grpc"
	"google.golang.org/grpc/codes"
	"google.golang.org/grpc/credentials/insecure"
	"google.golang.org/grpc/status"
	"google.golang.org/grpc/test/bufconn"
	"google.golang.org/protobuf/proto"
	"pgregory.net/rapid"

	"verif/harness/internal/casfmt"
	"verif/harness/internal/cl"
	"verif/harness/internal/ev"
	"verif/harness/internal/fproxy"
	"verif/harness/internal/gen"
	"verif/harness/internal/inv"
	"verif/harness/internal/rt"
	"verif/harness/internal/stack"
)

func TestMain(m *testing.M) { rt.Main(m, "C12") }

var E = ev.Get("C12")
var quiet = log.New(io.Discard, "", 0)

func storedForm(kind cache.EntryKind, data []byte, mode string) []byte {
	if kind == cache.CAS && mode == "zstd" {
		return casfmt.Encode(data, gen.Chunk, func(b []byte) []byte { return gen.ZstdGo(b, 1, false) })
	}
	return data
}

// value draws a (kind, hash, logical bytes) triple; AC values are valid
// ActionResults so that they can also travel over a gRPC backend.
func value(t *rapid.T, maxSize int) (cache.EntryKind, string, []byte, string) {
	kind := rapid.SampledFrom([]cache.EntryKind{cache.CAS, cache.CAS, cache.AC, cache.RAW}).Draw(t, "kind")
	b := gen.DrawBlob(t, "blob", 1, maxSize)
	if kind == cache.CAS {
		return kind, b.Hash, b.Data, b.SizeCls
	}
	ar := &pb.ActionResult{StdoutRaw: b.Data, ExitCode: 1, ExecutionMetadata: &pb.ExecutedActionMetadata{Worker: "w"}}
	data, _ := proto.Marshal(ar)
	return kind, gen.SHA(append([]byte("k"), b.Data[:min(len(b.Data), 16)]...)), data, b.SizeCls
}

type readResult struct {
	hit   bool
	data  []byte
	size  int64
	err   error
	rderr error
}

func diskGet(s *stack.Stack, kind cache.EntryKind, hash string, size int64) readResult {
	ctx, cancel := context.WithCancel(context.Background())
	defer cancel() // the request context ends with the request, as in net/http and gRPC
	rc, fs, err := s.Cache.Get(ctx, kind, hash, size, 0)
	if err != nil || rc == nil {
		if rc != nil {
			rc.Close()
		}
		return readResult{err: err}
	}
	data, rderr := io.ReadAll(rc)
	rc.Close()
	return readResult{hit: true, data: data, size: fs, rderr: rderr}
}

func afterChecks(t *rapid.T, s *stack.Stack, px *fproxy.Proxy, ctxs string) {
	// The client side of a cancelled request returns before the server side
	// has unwound: first wait (bounded) until no goroutine is inside request
	// frames any more; one that stays parked there is itself a leak.
	if gs := inv.LeakedRequestGoroutines(5 * time.Second); len(gs) > 0 {
		t.Fatalf("after the request: goroutine(s) still parked in request frames:\n%s\n%s", strings.Join(gs, "\n\n"), ctxs)
	}
	if err := inv.SettledAccounting(s, 0, 5*time.Second); err != nil {
		t.Fatalf("after the request: %v: %s", err, ctxs)
	}
	if err := inv.DirEqualsIndex(s); err != nil {
		if strings.HasPrefix(err.Error(), "VERIF-INFRA") {
			fmt.Println(err)
		}
		t.Fatalf("after the request: %v: %s", err, ctxs)
	}
	if fds := inv.WaitNoFDs(s.Dir, 2*time.Second); len(fds) > 0 {
		t.Fatalf("after the request: descriptors still open into the cache directory %v: %s", fds, ctxs)
	}
	if px != nil {
		for i := 0; i < 2000 && px.OpenReaders.Load() != 0; i++ {
			time.Sleep(time.Millisecond)
		}
		if n := px.OpenReaders.Load(); n != 0 {
			t.Fatalf("after the request: %d backend stream(s) never closed: %s", n, ctxs)
		}
	}
	if gs := inv.LeakedRequestGoroutines(3 * time.Second); len(gs) > 0 {
		t.Fatalf("after the request: goroutine(s) still parked in request frames:\n%s\n%s", strings.Join(gs, "\n\n"), ctxs)
	}
}

var faultKinds = []string{"", "", "err-before", "notfound", "nil-reader-no-err", "size+1", "size-1", "size-unknown", "stream-err", "stream-err", "clean-eof", "clean-eof", "bad-header", "garbage", "block-until-cancel"}

func TestC12ScriptedBackend(t *testing.T) {
	E.SetRule("backend fault scripts: rapid draws storage mode × kind (CAS / AC / RAW) × blob (1 B..3 MiB) × requested size known / -1 × read path (disk Get, HTTP GET, ByteStream.Read, GetActionResult) × fault (none, error before the response, not-found, nil reader, size metadata +1/-1/unknown, stream error at byte k, clean EOF at byte k, malformed casblob header, other leading bytes, stall until the request is cancelled) for (i) the scripted in-process cache.Proxy, (ii) the real httpproxy against a fault-injecting HTTP server (status codes, no Content-Length, body shorter than Content-Length then close, stall) and (iii) the real grpcproxy against an in-process gRPC backend (NOT_FOUND, stream error or early OK at message k, FetchBlob size lies); plus fault-free write-through with a peer cache. Oracle: hit => exactly the backend's bytes and size; otherwise miss or error; the next (fault-free) read is a hit with exact bytes (not poisoned); then reserved = 0, directory = index, no descriptor into the cache dir, no backend stream left open, no goroutine parked in request frames; every accepted upload reaches the backend exactly once in a form a peer in the same mode serves identically. non-trivial: a fault after the backend started answering; distinct by (backend, mode, kind, fault, offset class, size known)")
	rt.Check(t, rt.N(350, 2500), func(t *rapid.T) {
		mode := rapid.SampledFrom([]string{"zstd", "uncompressed"}).Draw(t, "mode")
		kind, hash, data, sizeCls := value(t, 3*gen.MiB)
		px := fproxy.New()
		// "oversize objects": sometimes a max_proxy_blob_size around the object's size
		var proxyMax int64
		switch rapid.IntRange(0, 5).Draw(t, "proxyMaxClass") {
		case 0:
			proxyMax = int64(len(data)) - 1
		case 1:
			proxyMax = int64(len(data))
		case 2:
			proxyMax = int64(len(data))/2 + 1
		}
		if proxyMax < 1 {
			proxyMax = 0
		}
		over := proxyMax > 0 && int64(len(data)) > proxyMax
		s, err := stack.New(stack.Opts{Storage: mode, Proxy: px, ProxyMax: proxyMax})
		if err != nil {
			t.Fatal(err)
		}
		defer s.Close()
		st := storedForm(kind, data, mode)
		px.Set(kind, hash, fproxy.Obj{Stored: st, Logical: int64(len(data))})
		f := fproxy.Fault{Kind: rapid.SampledFrom(faultKinds).Draw(t, "fault")}
		if over {
			f.Kind = rapid.SampledFrom([]string{"", "", "size-unknown", "size-1"}).Draw(t, "oversizeFault")
		}
		rawEntry := kind != cache.CAS || mode != "zstd"
		if rawEntry && (f.Kind == "bad-header" || f.Kind == "garbage") {
			f.Kind = "clean-eof" // content faults of equal length are a bit-flip adversary (outside the statement)
		}
		offCls := "-"
		if f.Kind == "stream-err" || f.Kind == "clean-eof" {
			switch rapid.IntRange(0, 3).Draw(t, "atClass") {
			case 0:
				f.At, offCls = 0, "0"
			case 1:
				f.At, offCls = len(st)-1, "last"
			case 2:
				f.At, offCls = min(len(st)-1, rapid.IntRange(0, 60).Draw(t, "atHeader")), "header"
			default:
				f.At, offCls = rapid.IntRange(0, len(st)-1).Draw(t, "at"), "mid"
			}
		}
		px.SetFault(kind, hash, f)
		sizeKnown := rapid.Bool().Draw(t, "sizeKnown")
		size := int64(-1)
		if sizeKnown {
			size = int64(len(data))
		}
		path := "disk"
		if kind == cache.CAS {
			path = rapid.SampledFrom([]string{"disk", "http", "bs"}).Draw(t, "path")
		} else if kind == cache.AC {
			path = rapid.SampledFrom([]string{"disk", "grpc-ac", "http-ac"}).Draw(t, "path")
		}
		ctxs := fmt.Sprintf("backend=scripted mode=%s kind=%s size=%d (%s) requested=%d path=%s fault=%s@%d/%d", mode, kind, len(data), sizeCls, size, path, f.Kind, f.At, len(st))
		after := f.Kind == "stream-err" || f.Kind == "clean-eof" || f.Kind == "bad-header" || f.Kind == "garbage" || f.Kind == "block-until-cancel" || strings.HasPrefix(f.Kind, "size")
		E.Case(fmt.Sprintf("scripted|%s|%s|%s|%s|%v|%s", mode, kind, f.Kind, offCls, sizeKnown, path), after, "backend=scripted", "mode="+mode, "kind="+kind.String(), "fault="+f.Kind, "path="+path, fmt.Sprintf("sizeKnown=%v", sizeKnown))
		E.Sample("scripted/"+f.Kind, map[string]any{"backend": "scripted", "mode": mode, "kind": kind.String(), "logical_size": len(data), "requested_size": size, "path": path, "fault": f.Kind, "fault_at": f.At, "stored_bytes": len(st)})

		var r readResult
		switch path {
		case "disk":
			if f.Kind == "block-until-cancel" {
				ctx, cancel := context.WithTimeout(context.Background(), 300*time.Millisecond)
				rc, fs, err := s.Cache.Get(ctx, kind, hash, size, 0)
				cancel()
				if rc != nil {
					d, rderr := io.ReadAll(rc)
					rc.Close()
					r = readResult{hit: err == nil, data: d, size: fs, rderr: rderr}
				} else {
					r = readResult{err: err}
				}
			} else {
				r = diskGet(s, kind, hash, size)
			}
		case "http":
			if f.Kind == "block-until-cancel" {
				s.Client.Timeout = 500 * time.Millisecond
			}
			resp := cl.HTTPGet(s, "/cas/"+hash, nil)
			r = readResult{hit: resp.Code == 200 && resp.Err == nil, data: resp.Body, size: int64(len(resp.Body)), rderr: resp.Err}
			if resp.Code == 200 && resp.Err == nil {
				if cls := resp.Header.Get("Content-Length"); cls != "" && cls != fmt.Sprint(len(data)) {
					t.Fatalf("HTTP GET announced Content-Length %s for a %d-byte blob: %s", cls, len(data), ctxs)
				}
			}
		case "bs":
			ctx, cancel := context.WithTimeout(context.Background(), 60*time.Second)
			if f.Kind == "block-until-cancel" {
				cancel()
				ctx, cancel = context.WithTimeout(context.Background(), 400*time.Millisecond)
			}
			stt, err := s.BS.Read(ctx, &bytestream.ReadRequest{ResourceName: cl.ReadName("", hash, int64(len(data)), false)})
			var buf bytes.Buffer
			for err == nil {
				var m *bytestream.ReadResponse
				m, err = stt.Recv()
				if err == nil {
					buf.Write(m.Data)
				}
			}
			cancel()
			r = readResult{hit: err == io.EOF, data: buf.Bytes(), size: int64(buf.Len()), rderr: nil}
			if err != io.EOF {
				// bytes delivered before an error are only required to be a prefix (C02); not a hit
				if !bytes.HasPrefix(data, buf.Bytes()) {
					t.Fatalf("bytes delivered before the error are not a prefix of the blob: %s", ctxs)
				}
			}
		case "grpc-ac":
			ctx, cancel := context.WithTimeout(context.Background(), 2*time.Second)
			got, err := s.AC.GetActionResult(ctx, &pb.GetActionResultRequest{ActionDigest: &pb.Digest{Hash: hash, SizeBytes: 1}, InlineStdout: true})
			cancel()
			if err == nil {
				var want pb.ActionResult
				_ = proto.Unmarshal(data, &want)
				if !proto.Equal(got, &want) {
					t.Fatalf("GetActionResult served a message that differs from the backend's: %s", ctxs)
				}
				r = readResult{hit: true, data: data, size: int64(len(data))}
			} else {
				r = readResult{err: err}
			}
		case "http-ac":
			s.Client.Timeout = 3 * time.Second
			resp := cl.HTTPGet(s, "/ac/"+hash, nil)
			r = readResult{hit: resp.Code == 200 && resp.Err == nil, data: resp.Body, size: int64(len(resp.Body)), rderr: resp.Err}
		}
		s.Client.Timeout = 60 * time.Second
		ctxs += fmt.Sprintf(" -> hit=%v bytes=%d size=%d err=%v rderr=%v", r.hit, len(r.data), r.size, r.err, r.rderr)
		if over {
			E.Label("oversize-object")
			ctxs += fmt.Sprintf(" max_proxy_blob_size=%d", proxyMax)
			if r.hit && len(r.data) > 0 {
				t.Fatalf("object larger than max_proxy_blob_size served from the backend: %s", ctxs)
			}
			afterChecks(t, s, px, ctxs)
			for _, e := range disk.VerifIndexSnapshot(s.Cache) {
				if e.Key == cache.LookupKey(kind, hash) {
					t.Fatalf("object larger than max_proxy_blob_size cached locally: %s", ctxs)
				}
			}
			return
		}
		if r.hit && r.rderr == nil {
			if !bytes.Equal(r.data, data) || r.size != int64(len(data)) {
				t.Fatalf("hit with wrong, short or mis-sized content (%d bytes, reported size %d; backend holds %d): %s", len(r.data), r.size, len(data), ctxs)
			}
			E.Label("outcome=hit/" + f.Kind)
		} else if r.hit {
			// streaming read that ended in an error: delivered bytes must be a prefix
			if !bytes.HasPrefix(data, r.data) {
				t.Fatalf("partial delivery is not a prefix of the blob: %s", ctxs)
			}
			E.Label("outcome=stream-error/" + f.Kind)
		} else {
			E.Label("outcome=miss-or-error/" + f.Kind)
			if f.Kind == "" {
				t.Fatalf("fault-free read-through missed an entry the backend holds: %s", ctxs)
			}
		}
		afterChecks(t, s, px, ctxs)
		// not poisoned: the fault is consumed; the same entry must now be served exactly
		// (a request that gave up before it reached the backend has not consumed
		// it: a "block until cancelled" fault would then park the next read forever)
		if px.ClearFaults() > 0 {
			E.Label("fault-not-reached")
		}
		r2 := diskGet(s, kind, hash, int64(len(data)))
		if !r2.hit || !bytes.Equal(r2.data, data) || r2.size != int64(len(data)) {
			t.Fatalf("second (fault-free) read: hit=%v %d bytes size=%d err=%v (local cache poisoned or backend not consulted): %s", r2.hit, len(r2.data), r2.size, r2.err, ctxs)
		}
		// and now it is cached locally: a third read must not go to the backend
		before := px.NumGets()
		r3 := diskGet(s, kind, hash, -1)
		if !r3.hit || !bytes.Equal(r3.data, data) {
			t.Fatalf("third read (size unknown): hit=%v %d bytes: %s", r3.hit, len(r3.data), ctxs)
		}
		if px.NumGets() != before {
			t.Fatalf("entry fetched from the backend is not served locally afterwards (backend asked again): %s", ctxs)
		}
		afterChecks(t, s, px, ctxs)
		if s.Panics() > 0 {
			t.Fatalf("handler panic: %v: %s", s.PanicLog, ctxs)
		}
	})
}

// TestC12WriteThrough: every accepted upload is handed to the backend once,
// in a form from which a peer in the same mode recovers the identical blob.
func TestC12WriteThrough(t *testing.T) {
	rt.Check(t, rt.N(120, 900), func(t *rapid.T) {
		mode := rapid.SampledFrom([]string{"zstd", "uncompressed"}).Draw(t, "mode")
		codec := rapid.SampledFrom([]string{"go", "cgo"}).Draw(t, "codec")
		px := fproxy.New()
		full := rapid.IntRange(0, 5).Draw(t, "queueFull") == 0
		px.PutFull = full
		s, err := stack.New(stack.Opts{Storage: mode, Zstd: codec, Proxy: px})
		if err != nil {
			t.Fatal(err)
		}
		defer s.Close()
		kind, hash, data, sizeCls := value(t, 3*gen.MiB)
		via := "disk"
		if kind == cache.CAS {
			via = rapid.SampledFrom([]string{"disk", "http", "bs"}).Draw(t, "via")
		}
		switch via {
		case "disk":
			if err := s.Cache.Put(context.Background(), kind, hash, int64(len(data)), bytes.NewReader(data)); err != nil {
				t.Fatal(err)
			}
		case "http":
			if r := cl.HTTPPut(s, "/cas/"+hash, nil, data); r.Code != 200 {
				t.Fatalf("PUT %d", r.Code)
			}
		case "bs":
			if r := cl.BSWrite(s, cl.Chunked(cl.WriteName("", "u", hash, int64(len(data)), false, ""), data, []int{len(data) / 2}, true), false); r.Code != codes.OK {
				t.Fatalf("Write %v", r.Err)
			}
		}
		px.Wait()
		puts := px.PutsCopy()
		ctxs := fmt.Sprintf("mode=%s/%s kind=%s size=%d (%s) via=%s queueFull=%v", mode, codec, kind, len(data), sizeCls, via, full)
		E.Case(fmt.Sprintf("writethrough|%s|%s|%s|%s|%v", mode, codec, kind, sizeCls, full), true, "backend=scripted-writethrough", "mode="+mode, "kind="+kind.String(), fmt.Sprintf("queueFull=%v", full))
		if full {
			if len(puts) != 0 {
				t.Fatalf("upload recorded although the queue was full: %s", ctxs)
			}
			if r := diskGet(s, kind, hash, -1); !r.hit || !bytes.Equal(r.data, data) {
				t.Fatalf("a full upload queue affected the local entry: %s", ctxs)
			}
			afterChecks(t, s, px, ctxs)
			return
		}
		if len(puts) != 1 {
			t.Fatalf("accepted upload reached the backend %d times: %s", len(puts), ctxs)
		}
		p := puts[0]
		if p.Kind != kind || p.Hash != hash || p.Logical != int64(len(data)) || p.SizeOnDisk != int64(len(p.Data)) {
			t.Fatalf("hand-off metadata kind=%s hash=%s logical=%d sizeOnDisk=%d for %d stored bytes: %s", p.Kind, p.Hash, p.Logical, p.SizeOnDisk, len(p.Data), ctxs)
		}
		// a peer in the same mode (other codec) wired to a backend holding exactly that object
		px2 := fproxy.New()
		px2.Set(kind, hash, fproxy.Obj{Stored: p.Data, Logical: p.Logical})
		other := map[string]string{"go": "cgo", "cgo": "go"}[codec]
		peer, err := stack.New(stack.Opts{Storage: mode, Zstd: other, Proxy: px2, NoServers: true})
		if err != nil {
			t.Fatal(err)
		}
		defer peer.Close()
		for _, sz := range []int64{int64(len(data)), -1} {
			r := diskGet(peer, kind, hash, sz)
			if !r.hit || !bytes.Equal(r.data, data) || r.size != int64(len(data)) {
				t.Fatalf("peer cannot recover the blob from what was handed to the backend (hit=%v %d bytes size=%d err=%v): %s", r.hit, len(r.data), r.size, r.err, ctxs)
			}
		}
		afterChecks(t, s, px, ctxs)
	})
}

// ------------------------------------------------------------------ real httpproxy

type faultHTTP struct {
	mu     sync.Mutex
	objs   map[string][]byte
	fault  string
	at     int
	open   atomic.Int64
	served atomic.Int64
}

func (f *faultHTTP) ServeHTTP(w http.ResponseWriter, r *http.Request) {
	f.mu.Lock()
	obj, ok := f.objs[r.URL.Path]
	fault, at := f.fault, f.at
	if r.Method == "GET" {
		f.fault = ""
	}
	f.mu.Unlock()
	switch r.Method {
	case "PUT":
		b, _ := io.ReadAll(r.Body)
		f.mu.Lock()
		f.objs[r.URL.Path] = b
		f.mu.Unlock()
		return
	case "HEAD":
		if !ok {
			http.NotFound(w, r)
			return
		}
		w.Header().Set("Content-Length", fmt.Sprint(len(obj)))
		return
	}
	f.served.Add(1)
	if !ok || fault == "404" {
		http.NotFound(w, r)
		return
	}
	switch fault {
	case "500":
		http.Error(w, "backend trouble", 500)
	case "403":
		http.Error(w, "forbidden", 403)
	case "no-content-length":
		w.(http.Flusher).Flush()
		w.Write(obj)
	case "short-body":
		hj := w.(http.Hijacker)
		c, buf, err := hj.Hijack()
		if err != nil {
			return
		}
		fmt.Fprintf(buf, "HTTP/1.1 200 OK\r\nContent-Length: %d\r\n\r\n", len(obj))
		buf.Write(obj[:at])
		buf.Flush()
		c.Close()
	case "stall":
		w.Header().Set("Content-Length", fmt.Sprint(len(obj)))
		w.Write(obj[:at])
		w.(http.Flusher).Flush()
		<-r.Context().Done()
	default:
		w.Header().Set("Content-Length", fmt.Sprint(len(obj)))
		w.Write(obj)
	}
}

func TestC12HTTPBackend(t *testing.T) {
	rt.Check(t, rt.N(150, 1200), func(t *rapid.T) {
		mode := rapid.SampledFrom([]string{"zstd", "uncompressed"}).Draw(t, "mode")
		kind, hash, data, sizeCls := value(t, gen.MiB+5000)
		fh := &faultHTTP{objs: map[string][]byte{}}
		srv := httptest.NewUnstartedServer(fh)
		srv.Config.ConnState = func(c net.Conn, st http.ConnState) {
			switch st {
			case http.StateNew:
				fh.open.Add(1)
			case http.StateClosed, http.StateHijacked:
				fh.open.Add(-1)
			}
		}
		srv.Start()
		defer srv.Close()
		u, _ := url.Parse(srv.URL)
		tr := &http.Transport{}
		hp, err := httpproxy.New(u, mode, &http.Client{Transport: tr}, quiet, quiet, 2, 10)
		if err != nil {
			t.Fatal(err)
		}
		s, err := stack.New(stack.Opts{Storage: mode, Proxy: hp})
		if err != nil {
			t.Fatal(err)
		}
		defer s.Close()
		st := storedForm(kind, data, mode)
		p := "/" + kind.String() + "/" + hash
		if kind == cache.CAS && mode == "zstd" {
			p = "/cas.v2/" + hash
		}
		fh.objs[p] = st
		fh.fault = rapid.SampledFrom([]string{"", "", "404", "500", "403", "no-content-length", "short-body", "short-body", "stall"}).Draw(t, "fault")
		if fh.fault == "short-body" || fh.fault == "stall" {
			fh.at = rapid.IntRange(0, len(st)-1).Draw(t, "at")
			if rapid.Bool().Draw(t, "atHeader") {
				fh.at = min(len(st)-1, rapid.IntRange(0, 50).Draw(t, "atH"))
			}
		}
		fault := fh.fault
		sizeKnown := rapid.Bool().Draw(t, "sizeKnown")
		size := int64(-1)
		if sizeKnown {
			size = int64(len(data))
		}
		ctxs := fmt.Sprintf("backend=httpproxy mode=%s kind=%s size=%d (%s) requested=%d fault=%s@%d/%d", mode, kind, len(data), sizeCls, size, fault, fh.at, len(st))
		E.Case(fmt.Sprintf("http|%s|%s|%s|%v", mode, kind, fault, sizeKnown), fault == "short-body" || fault == "stall" || fault == "no-content-length", "backend=httpproxy", "mode="+mode, "kind="+kind.String(), "fault="+fault)
		E.Sample("http/"+fault, map[string]any{"backend": "httpproxy", "mode": mode, "kind": kind.String(), "logical_size": len(data), "fault": fault, "fault_at": fh.at})
		ctx, cancel := context.WithTimeout(context.Background(), 20*time.Second)
		if fault == "stall" {
			cancel()
			ctx, cancel = context.WithTimeout(context.Background(), 300*time.Millisecond)
		}
		rc, fs, err := s.Cache.Get(ctx, kind, hash, size, 0)
		var got []byte
		var rderr error
		if rc != nil {
			got, rderr = io.ReadAll(rc)
			rc.Close()
		}
		cancel()
		ctxs += fmt.Sprintf(" -> rc=%v size=%d err=%v rderr=%v", rc != nil, fs, err, rderr)
		if rc != nil && err == nil && rderr == nil {
			if !bytes.Equal(got, data) || fs != int64(len(data)) {
				t.Fatalf("hit with wrong, short or mis-sized content (%d bytes, size %d, want %d): %s", len(got), fs, len(data), ctxs)
			}
		} else if fault == "" {
			t.Fatalf("fault-free read-through failed: %s", ctxs)
		}
		if err := inv.SettledAccounting(s, 0, 5*time.Second); err != nil {
			t.Fatalf("%v: %s", err, ctxs)
		}
		if err := inv.DirEqualsIndex(s); err != nil {
			t.Fatalf("%v: %s", err, ctxs)
		}
		if fds := inv.WaitNoFDs(s.Dir, 2*time.Second); len(fds) > 0 {
			t.Fatalf("descriptors still open into the cache dir %v: %s", fds, ctxs)
		}
		// second read, fault consumed
		r2 := diskGet(s, kind, hash, int64(len(data)))
		if !r2.hit || !bytes.Equal(r2.data, data) {
			t.Fatalf("second (fault-free) read: hit=%v %d bytes err=%v: %s", r2.hit, len(r2.data), r2.err, ctxs)
		}
		n := fh.served.Load()
		if r3 := diskGet(s, kind, hash, -1); !r3.hit || !bytes.Equal(r3.data, data) || fh.served.Load() != n {
			t.Fatalf("entry is not served locally after a successful fetch (backend GETs %d -> %d): %s", n, fh.served.Load(), ctxs)
		}
		// connections: after idle ones are closed nothing may remain open to the backend
		tr.CloseIdleConnections()
		for i := 0; i < 3000 && fh.open.Load() > 0; i++ {
			time.Sleep(time.Millisecond)
			tr.CloseIdleConnections()
		}
		if o := fh.open.Load(); o > 0 {
			t.Fatalf("%d backend connection(s) still open after the requests ended: %s", o, ctxs)
		}
		if gs := inv.LeakedRequestGoroutines(3 * time.Second); len(gs) > 0 {
			t.Fatalf("goroutine(s) parked in request frames:\n%s\n%s", strings.Join(gs, "\n\n"), ctxs)
		}
	})
}

// ------------------------------------------------------------------ real grpcproxy

type faultGRPC struct {
	pb.UnimplementedActionCacheServer
	pb.UnimplementedContentAddressableStorageServer
	pb.UnimplementedCapabilitiesServer
	bytestream.UnimplementedByteStreamServer
	mu      sync.Mutex
	blobs   map[string][]byte // resource name -> stream bytes
	sizes   map[string]int64  // hash -> logical size
	acs     map[string]*pb.ActionResult
	fault   string
	atMsg   int
	reads   atomic.Int64
	writes  map[string][]byte
}

func (f *faultGRPC) GetCapabilities(context.Context, *pb.GetCapabilitiesRequest) (*pb.ServerCapabilities, error) {
	return &pb.ServerCapabilities{CacheCapabilities: &pb.CacheCapabilities{DigestFunctions: []pb.DigestFunction_Value{pb.DigestFunction_SHA256}, ActionCacheUpdateCapabilities: &pb.ActionCacheUpdateCapabilities{UpdateEnabled: true}, SupportedCompressors: []pb.Compressor_Value{pb.Compressor_ZSTD}}}, nil
}

func (f *faultGRPC) Read(req *bytestream.ReadRequest, srv bytestream.ByteStream_ReadServer) error {
	f.reads.Add(1)
	f.mu.Lock()
	data, ok := f.blobs[req.ResourceName]
	fault, at := f.fault, f.atMsg
	f.fault = ""
	f.mu.Unlock()
	if !ok || fault == "notfound" {
		return status.Error(codes.NotFound, "no such blob")
	}
	const msg = 16 * 1024
	for i, off := 0, 0; off < len(data) || (len(data) == 0 && i == 0); i, off = i+1, off+msg {
		if (fault == "stream-err" || fault == "early-ok") && i == at {
			if fault == "stream-err" {
				return status.Error(codes.Unavailable, "backend went away")
			}
			return nil
		}
		end := off + msg
		if end > len(data) {
			end = len(data)
		}
		if err := srv.Send(&bytestream.ReadResponse{Data: data[off:end]}); err != nil {
			return err
		}
	}
	return nil
}

func (f *faultGRPC) Write(srv bytestream.ByteStream_WriteServer) error {
	var buf bytes.Buffer
	name := ""
	for {
		m, err := srv.Recv()
		if err == io.EOF {
			break
		}
		if err != nil {
			return err
		}
		if name == "" {
			name = m.ResourceName
		}
		buf.Write(m.Data)
		if m.FinishWrite {
			break
		}
	}
	f.mu.Lock()
	f.writes[name] = buf.Bytes()
	f.mu.Unlock()
	return srv.SendAndClose(&bytestream.WriteResponse{CommittedSize: int64(buf.Len())})
}

func (f *faultGRPC) FindMissingBlobs(ctx context.Context, req *pb.FindMissingBlobsRequest) (*pb.FindMissingBlobsResponse, error) {
	resp := &pb.FindMissingBlobsResponse{}
	f.mu.Lock()
	defer f.mu.Unlock()
	for _, d := range req.BlobDigests {
		if sz, ok := f.sizes[d.Hash]; !ok || sz != d.SizeBytes {
			resp.MissingBlobDigests = append(resp.MissingBlobDigests, d)
		}
	}
	return resp, nil
}

func (f *faultGRPC) GetActionResult(ctx context.Context, req *pb.GetActionResultRequest) (*pb.ActionResult, error) {
	f.reads.Add(1)
	f.mu.Lock()
	defer f.mu.Unlock()
	fault := f.fault
	f.fault = ""
	ar, ok := f.acs[req.ActionDigest.GetHash()]
	if !ok || fault == "notfound" {
		return nil, status.Error(codes.NotFound, "no such action result")
	}
	if fault == "stream-err" || fault == "early-ok" {
		return nil, status.Error(codes.Unavailable, "backend went away")
	}
	return ar, nil
}

func (f *faultGRPC) UpdateActionResult(ctx context.Context, req *pb.UpdateActionResultRequest) (*pb.ActionResult, error) {
	f.mu.Lock()
	f.acs[req.ActionDigest.GetHash()] = req.ActionResult
	f.mu.Unlock()
	return req.ActionResult, nil
}

func TestC12GRPCBackend(t *testing.T) {
	rt.Check(t, rt.N(150, 1200), func(t *rapid.T) {
		mode := rapid.SampledFrom([]string{"zstd", "uncompressed"}).Draw(t, "mode")
		kind, hash, data, sizeCls := value(t, 300000)
		fg := &faultGRPC{blobs: map[string][]byte{}, sizes: map[string]int64{}, acs: map[string]*pb.ActionResult{}, writes: map[string][]byte{}}
		lis := bufconn.Listen(1 << 20)
		gs := grpc.NewServer()
		pb.RegisterActionCacheServer(gs, fg)
		pb.RegisterContentAddressableStorageServer(gs, fg)
		pb.RegisterCapabilitiesServer(gs, fg)
		bytestream.RegisterByteStreamServer(gs, fg)
		go gs.Serve(lis)
		defer gs.Stop()
		conn, err := grpc.NewClient("passthrough://buf", grpc.WithTransportCredentials(insecure.NewCredentials()), grpc.WithContextDialer(func(context.Context, string) (net.Conn, error) { return lis.Dial() }))
		if err != nil {
			t.Fatal(err)
		}
		defer conn.Close()
		gp := grpcproxy.New(grpcproxy.NewGrpcClients(conn), mode, quiet, quiet, 2, 10)
		s, err := stack.New(stack.Opts{Storage: mode, Proxy: gp})
		if err != nil {
			t.Fatal(err)
		}
		defer s.Close()
		st := storedForm(kind, data, mode)
		if kind == cache.CAS {
			name := fmt.Sprintf("blobs/%s/%d", hash, len(data))
			if mode == "zstd" {
				name = fmt.Sprintf("compressed-blobs/zstd/%s/%d", hash, len(data))
			}
			fg.blobs[name] = st
			fg.sizes[hash] = int64(len(data))
		} else {
			var ar pb.ActionResult
			_ = proto.Unmarshal(data, &ar)
			fg.acs[hash] = &ar
		}
		fg.fault = rapid.SampledFrom([]string{"", "", "notfound", "stream-err", "early-ok", "early-ok"}).Draw(t, "fault")
		nmsg := (len(st) + 16*1024 - 1) / (16 * 1024)
		fg.atMsg = rapid.IntRange(0, max(0, nmsg-1)).Draw(t, "atMsg")
		fault := fg.fault
		ctxs := fmt.Sprintf("backend=grpcproxy mode=%s kind=%s size=%d (%s) fault=%s@msg%d/%d", mode, kind, len(data), sizeCls, fault, fg.atMsg, nmsg)
		E.Case(fmt.Sprintf("grpc|%s|%s|%s|%d", mode, kind, fault, min(fg.atMsg, 3)), fault == "stream-err" || fault == "early-ok", "backend=grpcproxy", "mode="+mode, "kind="+kind.String(), "fault="+fault)
		E.Sample("grpc/"+fault, map[string]any{"backend": "grpcproxy", "mode": mode, "kind": kind.String(), "logical_size": len(data), "fault": fault, "at_message": fg.atMsg})
		// size known for CAS (a size-unknown CAS fetch needs the asset API on the backend)
		size := int64(len(data))
		if kind != cache.CAS {
			size = -1
		}
		r := diskGet(s, kind, hash, size)
		ctxs += fmt.Sprintf(" -> hit=%v bytes=%d size=%d err=%v rderr=%v", r.hit, len(r.data), r.size, r.err, r.rderr)
		if r.hit && r.rderr == nil {
			ok := bytes.Equal(r.data, data)
			if kind != cache.CAS {
				var a, b pb.ActionResult
				ok = proto.Unmarshal(r.data, &a) == nil && proto.Unmarshal(data, &b) == nil && proto.Equal(&a, &b)
			}
			if !ok || (kind == cache.CAS && r.size != int64(len(data))) {
				t.Fatalf("hit with wrong, short or mis-sized content (%d bytes, size %d, want %d): %s", len(r.data), r.size, len(data), ctxs)
			}
		} else if fault == "" {
			t.Fatalf("fault-free read-through failed: %s", ctxs)
		}
		if err := inv.SettledAccounting(s, 0, 5*time.Second); err != nil {
			t.Fatalf("%v: %s", err, ctxs)
		}
		if err := inv.DirEqualsIndex(s); err != nil {
			t.Fatalf("%v: %s", err, ctxs)
		}
		if fds := inv.WaitNoFDs(s.Dir, 2*time.Second); len(fds) > 0 {
			t.Fatalf("descriptors still open into the cache dir %v: %s", fds, ctxs)
		}
		r2 := diskGet(s, kind, hash, size)
		if !r2.hit {
			t.Fatalf("second (fault-free) read missed: err=%v: %s", r2.err, ctxs)
		}
		if kind == cache.CAS && !bytes.Equal(r2.data, data) {
			t.Fatalf("second read returned %d bytes, want %d (poisoned): %s", len(r2.data), len(data), ctxs)
		}
		// the raw-AC existence check over a gRPC backend (HTTP HEAD with validation off)
		if kind != cache.CAS {
			other := gen.SHA([]byte("absent key"))
			func() {
				defer func() {
					if rec := recover(); rec != nil {
						t.Fatalf("existence check for an AC/RAW key the gRPC backend does not hold panicked: %v: %s", rec, ctxs)
					}
				}()
				if ok, _ := s.Cache.Contains(context.Background(), kind, other, -1); ok {
					t.Fatalf("absent key reported present: %s", ctxs)
				}
				if ok, _ := s.Cache.Contains(context.Background(), kind, hash, -1); !ok {
					t.Fatalf("key held locally/by the backend reported absent: %s", ctxs)
				}
			}()
		}
		if gsl := inv.LeakedRequestGoroutines(3 * time.Second); len(gsl) > 0 {
			t.Fatalf("goroutine(s) parked in request frames:\n%s\n%s", strings.Join(gsl, "\n\n"), ctxs)
		}
	})
}

var _ = disk.VerifDir

// TestC12WriteThroughRealGRPC: write-through and read-through between two real
// instances: a front cache whose backend is the real grpcproxy talking to a
// second, stock-configured instance (grpc-go's default 4 MiB message limit,
// as the binary has), and a peer front cache in front of the same backend.
// Sizes straddle the proxy's 2 MiB upload chunk and the 4 MiB message limit.
func TestC12WriteThroughRealGRPC(t *testing.T) {
	rt.Check(t, rt.N(25, 250), func(t *rapid.T) {
		mode := rapid.SampledFrom([]string{"zstd", "uncompressed"}).Draw(t, "mode")
		backend, err := stack.New(stack.Opts{Storage: mode, StockGRPCLimits: true})
		if err != nil {
			t.Fatal(err)
		}
		defer backend.Close()
		newFront := func() *stack.Stack {
			gp := grpcproxy.New(grpcproxy.NewGrpcClients(backend.Conn), mode, quiet, quiet, 2, 10)
			f, err := stack.New(stack.Opts{Storage: mode, Proxy: gp, NoServers: true})
			if err != nil {
				t.Fatal(err)
			}
			return f
		}
		front := newFront()
		defer front.Close()
		// CAS only: an ActionResult that travels through a second instance comes
		// back re-marshalled with the documented server-side changes (C11), not
		// byte-identical; the read-through of action results is in TestC12GRPCBackend.
		kind := cache.CAS
		size := rapid.SampledFrom([]int{1, 70000, 2*gen.MiB - 1, 2 * gen.MiB, 2*gen.MiB + 1, 3 * gen.MiB, 4*gen.MiB - 2048, 4*gen.MiB - 1, 4 * gen.MiB, 4*gen.MiB + 1, 5*gen.MiB + 3}).Draw(t, "size")
		content := rapid.SampledFrom([]string{"rand", "rand", "text"}).Draw(t, "content") // incompressible: on-disk size ~ logical size
		var data []byte
		var hash string
		if kind == cache.CAS {
			data = gen.Expand(uint64(size), size, content)
			hash = gen.SHA(data)
		} else {
			if size > 3*gen.MiB {
				size = 3 * gen.MiB
			}
			ar := &pb.ActionResult{StdoutRaw: gen.Expand(5, size, content), ExitCode: 3, ExecutionMetadata: &pb.ExecutedActionMetadata{Worker: "w"}}
			data, _ = proto.Marshal(ar)
			hash = gen.SHA([]byte("ac-key"))
		}
		sizeCls := fmt.Sprintf("%dMiB", (len(data)+gen.MiB/2)/gen.MiB)
		ctxs := fmt.Sprintf("backend=real-grpc mode=%s kind=%s size=%d content=%s", mode, kind, len(data), content)
		E.Case(fmt.Sprintf("realgrpc|%s|%s|%s", mode, kind, sizeCls), len(data) >= 2*gen.MiB, "backend=real-grpc-writethrough", "mode="+mode, "kind="+kind.String(), "size~"+sizeCls)
		E.Sample("realgrpc/"+sizeCls, map[string]any{"backend": "real grpcproxy -> second instance", "mode": mode, "kind": kind.String(), "bytes": len(data), "content": content})
		if err := front.Cache.Put(context.Background(), kind, hash, int64(len(data)), bytes.NewReader(data)); err != nil {
			t.Fatalf("upload to the front cache failed: %v: %s", err, ctxs)
		}
		// the hand-off is asynchronous: wait (bounded) until the backend has it
		arrived := false
		for deadline := time.Now().Add(20 * time.Second); time.Now().Before(deadline); time.Sleep(5 * time.Millisecond) {
			if ok, _ := backend.Cache.Contains(context.Background(), kind, hash, int64(len(data))); ok {
				arrived = true
				break
			}
		}
		if !arrived {
			t.Fatalf("an accepted upload never arrived at the backend (waited 20 s): %s", ctxs)
		}
		if r := diskGet(backend, kind, hash, int64(len(data))); !r.hit || !bytes.Equal(r.data, data) {
			t.Fatalf("the backend holds other bytes than were uploaded (hit=%v, %d bytes): %s", r.hit, len(r.data), ctxs)
		}
		peer := newFront()
		defer peer.Close()
		for _, sz := range []int64{int64(len(data)), -1} {
			if kind == cache.CAS && sz < 0 {
				continue // the gRPC backend protocol needs the size of a CAS blob
			}
			r := diskGet(peer, kind, hash, sz)
			if !r.hit || !bytes.Equal(r.data, data) || r.size != int64(len(data)) {
				t.Fatalf("a peer in front of the same backend cannot read the blob (hit=%v %d bytes size=%d err=%v): %s", r.hit, len(r.data), r.size, r.err, ctxs)
			}
		}
		if err := inv.SettledAccounting(front, 0, 5*time.Second); err != nil {
			t.Fatalf("front cache after the write-through: %v: %s", err, ctxs)
		}
	})
}

// TestC12ExistenceChecksEndEarly: backend existence checks (FindMissingBlobs,
// the dependency check of a validated ActionResult lookup) that end before
// the backend has answered every question - the client goes away, or one
// "absent" answer makes the rest pointless - with MORE questions outstanding
// than there are lookup workers (512), a backend that takes its time, and the
// end coming after everything was queued. Oracle: the fault degrades to an
// error or a miss, and nothing is left behind (goroutines in request frames,
// reservations).
func TestC12ExistenceChecksEndEarly(t *testing.T) {
	rt.Check(t, rt.N(25, 250), func(t *rapid.T) {
		px := fproxy.New()
		delay := time.Duration(rapid.SampledFrom([]int{200, 1000, 5000, 20000}).Draw(t, "answerMicros")) * time.Microsecond
		px.ContDelay = func(string) time.Duration { return delay }
		s, err := stack.New(stack.Opts{Proxy: px})
		if err != nil {
			t.Fatal(err)
		}
		defer s.Close()
		inv.SetBaseline()
		n := rapid.SampledFrom([]int{30, 513, 700, 1500, 2500}).Draw(t, "digests")
		holds := rapid.SampledFrom([]string{"none", "all", "all-but-first", "all-but-last", "half"}).Draw(t, "backendHolds")
		var ds []*pb.Digest
		for i := 0; i < n; i++ {
			d := gen.Expand(uint64(i)+90000, 24, "rand")
			ds = append(ds, &pb.Digest{Hash: gen.SHA(d), SizeBytes: 24})
			if holds == "all" || holds == "all-but-first" && i > 0 || holds == "all-but-last" && i < n-1 || holds == "half" && i%2 == 0 {
				px.Set(cache.CAS, gen.SHA(d), fproxy.Obj{Stored: d, Logical: 24})
			}
		}
		how := rapid.SampledFrom([]string{"findmissing-cancel", "findmissing-cancel", "depcheck"}).Draw(t, "how")
		after := time.Duration(rapid.SampledFrom([]int{0, 1, 3, 10, 50, 300}).Draw(t, "cancelAfterMillis")) * time.Millisecond
		ctxs := fmt.Sprintf("backend=scripted %s: %d digests, backend holds %s, one answer takes %v, client gives up after %v", how, n, holds, delay, after)
		E.Case(fmt.Sprintf("endearly|%s|%d|%s|%v|%v", how, n, holds, delay, after), n > 512, "backend=scripted-existence-checks", "endearly="+how, fmt.Sprintf("endearly>512=%v", n > 512))
		E.Sample("endearly/"+how, map[string]any{"how": how, "digests": n, "backend_holds": holds, "answer_time_us": int(delay / time.Microsecond), "client_gives_up_after_ms": int(after / time.Millisecond)})
		switch how {
		case "findmissing-cancel":
			ctx, cancel := context.WithTimeout(context.Background(), after)
			_, _ = s.Cache.FindMissingCasBlobs(ctx, ds)
			cancel()
		case "depcheck":
			ar := &pb.ActionResult{ExecutionMetadata: &pb.ExecutedActionMetadata{Worker: "w"}}
			for i, d := range ds {
				ar.OutputFiles = append(ar.OutputFiles, &pb.OutputFile{Path: fmt.Sprint("f", i), Digest: d})
			}
			body, _ := proto.Marshal(ar)
			key := gen.SHA([]byte("end-early"))
			if err := s.Cache.Put(context.Background(), cache.AC, key, int64(len(body)), bytes.NewReader(body)); err != nil {
				t.Fatal(err)
			}
			px.Wait()
			ctx, cancel := context.WithTimeout(context.Background(), 30*time.Second)
			got, _, err := s.Cache.GetValidatedActionResult(ctx, key)
			cancel()
			if holds != "all" && got != nil && err == nil {
				t.Fatalf("dependency check hit although the backend lacks referenced blobs: %s", ctxs)
			}
			if holds == "all" && (got == nil || err != nil) {
				t.Fatalf("dependency check missed although the backend holds every referenced blob (%v): %s", err, ctxs)
			}
		}
		if gs := inv.LeakedRequestGoroutines(10 * time.Second); len(gs) > 0 {
			t.Fatalf("after the request: goroutine(s) still parked in request frames:\n%s\n%s", strings.Join(gs, "\n\n"), ctxs)
		}
		if err := inv.SettledAccounting(s, 0, 5*time.Second); err != nil {
			t.Fatalf("after the request: %v: %s", err, ctxs)
		}
	})
}

