package c03

import (
	"bytes"
	"context"
	"fmt"
	"io"
	"os"
	"path/filepath"
	"strings"
	"sync"
	"testing"
	"time"

	"github.com/buchgr/bazel-remote/v2/cache"
	"github.com/buchgr/bazel-remote/v2/cache/disk"
	pb "github.com/buchgr/bazel-remote/v2/genproto/build/bazel/remote/execution/v2"
	"pgregory.net/rapid"

	"verif/harness/internal/gen"
	"verif/harness/internal/inv"
	"verif/harness/internal/rt"
	"verif/harness/internal/sched"
	"verif/harness/internal/stack"
)

// The accounting identity under OWNED schedules: a few requests against one
// small cache run one at a time between the build-tag guarded yield points
// (upload: reserved / written; read: unlocked / slow path / opened / about to
// drop a damaged entry; remover: before each unlink); rapid draws the
// operations and the schedule. The identity is evaluated at EVERY scheduling
// step - i.e. with uploads half-written, readers holding stale list elements,
// evictions queued - and again at quiescence.

var (
	curSched   *sched.Sched
	curSchedMu sync.Mutex
	hookOnce   sync.Once
)

func installHook() {
	hookOnce.Do(func() {
		disk.VerifSetHook(func(point string) {
			curSchedMu.Lock()
			s := curSched
			curSchedMu.Unlock()
			if s != nil {
				s.Yield(point)
			}
		})
	})
}

type yieldReader struct {
	s    *sched.Sched
	data []byte
	pos  int
	step int
	fail int // >0: return an error once pos reaches it
}

func (r *yieldReader) Read(p []byte) (int, error) {
	r.s.Yield("reader.read")
	if r.fail > 0 && r.pos >= r.fail {
		return 0, fmt.Errorf("client went away")
	}
	if r.pos >= len(r.data) {
		return 0, io.EOF
	}
	n := min(r.step, len(p), len(r.data)-r.pos)
	copy(p, r.data[r.pos:r.pos+n])
	r.pos += n
	return n, nil
}

// identity checks total = Σ round4k(onDisk) + reserved, total <= max_size,
// logical total and item count, from the cache's own counters.
func identity(s *stack.Stack, maxSize int64) error {
	total, reserved, n, unc := s.Cache.Stats()
	var sd, sl int64
	snap := disk.VerifIndexSnapshot(s.Cache)
	for _, e := range snap {
		sd += (e.SizeOnDisk + 4095) / 4096 * 4096
		sl += (e.Size + 4095) / 4096 * 4096
	}
	if reserved < 0 || total != sd+reserved || unc != sl || n != len(snap) || total > maxSize || disk.VerifIndexMapLen(s.Cache) != len(snap) {
		return fmt.Errorf("total=%d reserved=%d items=%d logical=%d; index list: n=%d Σround4k(onDisk)=%d Σround4k(logical)=%d, map size %d; max_size=%d",
			total, reserved, n, unc, len(snap), sd, sl, disk.VerifIndexMapLen(s.Cache), maxSize)
	}
	return nil
}

func TestC03Scheduled(t *testing.T) {
	installHook()
	rt.Check(t, rt.N(1200, 8000), func(t *rapid.T) {
		storage := rapid.SampledFrom([]string{"zstd", "uncompressed"}).Draw(t, "storage")
		maxSize := int64(rapid.IntRange(6, 24).Draw(t, "maxBlocks")) * 4096
		s, err := stack.New(stack.Opts{Storage: storage, MaxSize: maxSize, NoServers: true})
		if err != nil {
			t.Fatal(err)
		}
		sc := sched.New()
		sc.BatchQueued = func() bool { return disk.VerifEvictionBatchQueued(s.Cache) }
		defer func() {
			curSchedMu.Lock()
			curSched = nil
			curSchedMu.Unlock()
			s.Close()
		}()
		val := func(seed, n int) []byte { return gen.Expand(uint64(seed), n, "rand") }
		kind := rapid.SampledFrom([]cache.EntryKind{cache.AC, cache.RAW}).Draw(t, "kind")
		hash := gen.SHA([]byte("shared-key"))
		casVal := val(1, rapid.SampledFrom([]int{10, 5000, 12000}).Draw(t, "casSize"))
		casHash := gen.SHA(casVal)
		pre := rapid.SampledFrom([]string{"empty", "key-present", "cas-present", "both", "damaged-cas", "damaged-cas"}).Draw(t, "pre")
		put := func(k cache.EntryKind, h string, d []byte) {
			_ = s.Cache.Put(context.Background(), k, h, int64(len(d)), bytes.NewReader(d))
		}
		if pre == "key-present" || pre == "both" {
			put(kind, hash, val(2, 3000))
		}
		if pre == "cas-present" || pre == "both" || pre == "damaged-cas" {
			put(cache.CAS, casHash, casVal)
		}
		if pre == "damaged-cas" {
			// every reader that opens this file takes the "drop the entry" path
			for f := range stack.ListFiles(s.Dir) {
				if strings.Contains(f, casHash) {
					p := filepath.Join(s.Dir, f)
					switch rapid.SampledFrom([]string{"truncate40", "truncate0", "delete"}).Draw(t, "casDamage") {
					case "truncate40":
						os.Truncate(p, 40)
					case "truncate0":
						os.Truncate(p, 0)
					default:
						os.Remove(p)
					}
				}
			}
		}
		s.WaitEvictions(5 * time.Second)
		if err := identity(s, maxSize); err != nil {
			t.Fatalf("before the workload: %v", err)
		}
		curSchedMu.Lock()
		curSched = sc
		curSchedMu.Unlock()

		ntasks := rapid.IntRange(2, 5).Draw(t, "ntasks")
		var shape []string
		sumPut := 0
		reinsert := rapid.Bool().Draw(t, "reinsertShape")
		for i := 0; i < ntasks; i++ {
			op := rapid.SampledFrom([]string{"put", "put", "failput", "get", "put-cas", "get-cas", "get-cas", "findmissing", "filler", "filler"}).Draw(t, "op")
			if pre == "damaged-cas" && rapid.IntRange(0, 2).Draw(t, "casBias") > 0 {
				op = rapid.SampledFrom([]string{"get-cas", "get-cas", "put-cas", "filler"}).Draw(t, "casOp")
			}
			if pre == "damaged-cas" && i < 3 && ntasks >= 3 && reinsert {
				// a reader of the damaged entry, something that evicts it, and a
				// fresh upload of the same digest: the reader may come back to an
				// entry that was removed and inserted again in the meantime
				op = []string{"get-cas", "filler", "put-cas"}[i]
			}
			shape = append(shape, op)
			name := fmt.Sprintf("t%d:%s", i, op)
			switch op {
			case "put", "failput":
				size := rapid.SampledFrom([]int{1, 100, 3000, 9000}).Draw(t, "size")
				if sumPut > 0 && rapid.IntRange(0, 2).Draw(t, "justFits") == 0 {
					// exactly fits beside the reservations of the uploads drawn so far,
					// though not once it is rounded up to whole blocks
					if js := int(maxSize) - sumPut - rapid.SampledFrom([]int{0, 1, 100}).Draw(t, "slack"); js >= 1 && js <= 60000 {
						size = js
					}
				}
				sumPut += size
				data := val(10+i, size)
				step := rapid.SampledFrom([]int{size, size/2 + 1, 1000}).Draw(t, "step")
				fail := 0
				if op == "failput" {
					fail = rapid.IntRange(1, size).Draw(t, "failAt")
				}
				sc.Go(name, func() {
					_ = s.Cache.Put(context.Background(), kind, hash, int64(size), &yieldReader{s: sc, data: data, step: step, fail: fail})
				})
			case "put-cas":
				sc.Go(name, func() {
					_ = s.Cache.Put(context.Background(), cache.CAS, casHash, int64(len(casVal)), &yieldReader{s: sc, data: casVal, step: len(casVal)/2 + 1})
				})
			case "get", "get-cas":
				k, hs := kind, hash
				size := int64(-1)
				if op == "get-cas" {
					k, hs = cache.CAS, casHash
					if rapid.Bool().Draw(t, "sizeKnown") {
						size = int64(len(casVal))
					}
				}
				sc.Go(name, func() {
					rc, _, err := s.Cache.Get(context.Background(), k, hs, size, 0)
					if rc != nil {
						if err == nil {
							sc.Yield("consumer.read")
							_, _ = io.Copy(io.Discard, rc)
						}
						rc.Close()
					}
				})
			case "findmissing":
				sc.Go(name, func() {
					_, _ = s.Cache.FindMissingCasBlobs(context.Background(), []*pb.Digest{{Hash: casHash, SizeBytes: int64(len(casVal))}})
				})
			case "filler":
				d := val(100+i, int(maxSize)/rapid.IntRange(2, 4).Draw(t, "fillerFraction"))
				sc.Go(name, func() {
					_ = s.Cache.Put(context.Background(), cache.CAS, gen.SHA(d), int64(len(d)), &yieldReader{s: sc, data: d, step: len(d)})
				})
			}
		}
		var midErr error
		steps := 0
		lastTask := "" // schedules with long stretches: the task that ran last mostly keeps running
		err = sc.Run(func(parked []*sched.Task) int {
			steps++
			if midErr == nil {
				if e := identity(s, maxSize); e != nil {
					midErr = fmt.Errorf("at scheduling step %d: %v", steps, e)
				}
			}
			if len(parked) == 1 {
				lastTask = parked[0].Name
				return 0
			}
			for i, p := range parked {
				if p.Name == lastTask && rapid.IntRange(0, 3).Draw(t, "stay") > 0 {
					return i
				}
			}
			i := rapid.IntRange(0, len(parked)-1).Draw(t, "sched")
			lastTask = parked[i].Name
			return i
		}, func() int64 { return disk.VerifQueuedEvictionBytes(s.Cache) })
		curSchedMu.Lock()
		curSched = nil
		curSchedMu.Unlock()
		window := false
		for _, l := range sc.Log {
			if strings.Contains(l, "@get.") || strings.Contains(l, "@put.") || strings.Contains(l, "@evict.unlink") {
				window = true
			}
		}
		nontrivial := window && sc.Switches >= 1
		E.Case(fmt.Sprintf("sched|%s|%s|%v|%s", storage, pre, shape, strings.Join(sc.Log, ">")), nontrivial, "engine=scheduled", "sched-pre="+pre, fmt.Sprintf("sched-nontrivial=%v", nontrivial), fmt.Sprintf("sched-switches>=3=%v", sc.Switches >= 3))
		if nontrivial {
			E.Sample("sched/"+pre, map[string]any{"storage": storage, "max_size": maxSize, "pre_state": pre, "tasks": shape, "schedule": sc.Log})
		}
		ctxs := fmt.Sprintf("storage=%s max_size=%d pre=%s tasks=%v\nschedule: %s", storage, maxSize, pre, shape, strings.Join(sc.Log, " > "))
		if err != nil {
			s.Abandon()
			t.Fatalf("schedule did not complete (deadlock?): %v\n%s\ngoroutines in cache/disk:\n%s", err, ctxs, strings.Join(stack.GoroutinesWith("cache/disk."), "\n\n"))
		}
		if midErr != nil {
			t.Fatalf("C03 accounting identity broken %v\n%s", midErr, ctxs)
		}
		if aerr := inv.SettledAccounting(s, maxSize, 3*time.Second); aerr != nil {
			t.Fatalf("C03 at quiescence: %v\n%s", aerr, ctxs)
		}
	})
}
