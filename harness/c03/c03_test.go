package c03

import (
	"encoding/json"
	"fmt"
	"strings"
	"testing"

	"github.com/buchgr/bazel-remote/v2/cache/disk"
	"pgregory.net/rapid"

	"verif/harness/internal/cl"
	"verif/harness/internal/ev"
	"verif/harness/internal/machine"
	"verif/harness/internal/rt"
)

func TestMain(m *testing.M) { rt.Main(m, "C03") }

var E = ev.Get("C03")

func drawMax(t *rapid.T) int64 {
	switch rapid.IntRange(0, 3).Draw(t, "maxClass") {
	case 0:
		return int64(rapid.IntRange(4, 16).Draw(t, "maxBlocks")) * 4096
	case 1:
		return int64(rapid.IntRange(16*1024, 256*1024).Draw(t, "maxBytes"))
	case 2:
		return int64(rapid.IntRange(16, 256).Draw(t, "maxBlocks")) * 4096
	}
	return int64(rapid.IntRange(256*1024, 1024*1024).Draw(t, "maxBytes"))
}

type statusPage struct {
	CurrSize         int64
	UncompressedSize int64
	ReservedSize     int64
	MaxSize          int64
	NumFiles         int
}

func checkStatusPage(t *rapid.T, m *machine.M) {
	resp := cl.HTTPGet(m.S, "/status", nil)
	if resp.Code != 200 {
		t.Fatalf("/status: %d %v", resp.Code, resp.Err)
	}
	var sp statusPage
	if err := json.Unmarshal(resp.Body, &sp); err != nil {
		t.Fatalf("/status: %v", err)
	}
	snap := disk.VerifIndexSnapshot(m.S.Cache)
	var sumDisk, sumLogical int64
	for _, e := range snap {
		sumDisk += machine.Round4k(e.SizeOnDisk)
		sumLogical += machine.Round4k(e.Size)
	}
	R := m.R()
	if sp.CurrSize != sumDisk+R || sp.ReservedSize != R || sp.UncompressedSize != sumLogical || sp.NumFiles != len(snap) || sp.MaxSize != m.Cfg.MaxSize {
		t.Fatalf("C03 /status reports %+v; index has %d entries, Σround4k(onDisk)=%d, Σround4k(logical)=%d, held reservations %d, max_size %d\nhistory:\n%s",
			sp, len(snap), sumDisk, sumLogical, R, m.Cfg.MaxSize, m.History())
	}
}

// TestC03Accounting: the invariant is evaluated after EVERY step, including
// while uploads are held open mid-stream.
func TestC03Accounting(t *testing.T) {
	E.SetRule("rapid state machine over one small cache (max_size 16 KiB..1 MiB; zstd/uncompressed; with and without a scripted backend): put / overwrite (other size) / get / contains / find-missing / validated-AC lookup / failing uploads (short, long, reader error at byte k, hash mismatch) / HELD uploads that block mid-stream and are later completed, aborted or corrupted / backend fetches with faults at every stage. Oracle after every step: Stats().total = Σ round4k(onDisk) over the index snapshot + R, reserved = R, total <= max_size, logical total = Σ round4k(logical), item count = list length = map size, where R = Σ declared sizes of the uploads the harness itself holds open (admission predicted from the statement); /status must report the same. non-trivial: history with a failure after its reservation was taken, an overwrite with size change, or an eviction; distinct by the sequence of (rule, outcome)")
	rt.Check(t, rt.N(250, 2000), func(t *rapid.T) {
		cfg := machine.Cfg{MaxSize: drawMax(t), Storage: rapid.SampledFrom([]string{"zstd", "uncompressed"}).Draw(t, "storage"), Codec: "go",
			Failures: true, Held: true, Proxy: rapid.Bool().Draw(t, "proxy"), Servers: rapid.IntRange(0, 3).Draw(t, "servers") == 0}
		cfg.ExcludeRawShortFetch = false
		m := machine.New(t, cfg)
		defer m.Close()
		var shape []string
		evictions := 0
		lastLen := func() int { return len(disk.VerifIndexSnapshot(m.S.Cache)) }
		step := func(name string, f func(*rapid.T)) func(*rapid.T) {
			return func(t *rapid.T) {
				before := m.Snapshot()
				f(t)
				after := m.Snapshot()
				for k := range before {
					if _, ok := after[k]; !ok {
						evictions++
						break
					}
				}
				shape = append(shape, name)
				m.CheckAccounting(t)
			}
		}
		_ = lastLen
		t.Repeat(map[string]func(*rapid.T){
			"put":          step("put", func(t *rapid.T) { m.Put(t) }),
			"failput":      step("failput", m.FailPut),
			"hold":         step("hold", m.Hold),
			"release":      step("release", m.Release),
			"get":          step("get", m.Get),
			"contains":     step("contains", m.Contains),
			"findmissing":  step("findmissing", m.FindMissing),
			"validated-ac": step("vac", m.ValidatedAC),
			"fetch":        step("fetch", m.Fetch),
			"status": func(t *rapid.T) {
				if !cfg.Servers {
					t.Skip("no front end in this case")
				}
				checkStatusPage(t, m)
			},
		})
		// drain: no request in flight => reserved must be zero
		for len(m.Held) > 0 {
			m.Release(t)
			m.CheckAccounting(t)
		}
		if _, res, _, _ := m.S.Cache.Stats(); res != 0 {
			t.Fatalf("C03: reserved=%d with no request in flight\n%s", res, m.History())
		}
		if cfg.Servers {
			checkStatusPage(t, m)
		}
		nontrivial := m.Flags["fail-after-reserve"] || m.Flags["overwrite-size-change"] || evictions > 0
		labels := []string{"storage=" + cfg.Storage, fmt.Sprintf("proxy=%v", cfg.Proxy), fmt.Sprintf("nontrivial=%v", nontrivial), fmt.Sprintf("evictions>0=%v", evictions > 0)}
		for _, f := range []string{"overwrite", "overwrite-size-change", "put-rejected", "fail-after-reserve", "held", "fetch", "fetch-fault"} {
			if m.Flags[f] {
				labels = append(labels, "has="+f)
			}
		}
		E.Case(strings.Join(shape, ","), nontrivial, labels...)
		E.LabelN("steps", int64(len(shape)))
		if nontrivial {
			E.Sample(fmt.Sprintf("held=%v,fetch=%v", m.Flags["held"], m.Flags["fetch-fault"]), map[string]any{"max_size": cfg.MaxSize, "storage": cfg.Storage, "proxy": cfg.Proxy, "history": m.Log})
		}
	})
}

// TestC03LRUDirect drives SizedLRU directly with sizes up to MaxInt64 to
// reach the overflow-safe comparisons.
func TestC03LRUDirect(t *testing.T) {
	rt.Check(t, rt.N(3000, 20000), func(t *rapid.T) {
		maxSize := rapid.SampledFrom([]int64{4096, 8192, 40960, 1 << 20, 1<<40 + 5, 1 << 50}).Draw(t, "max") // max_size is configured in GiB; values near MaxInt64 are not reachable
		l := disk.VerifNewLRU(maxSize, 0)
		type item struct{ size, disk int64 }
		model := map[string]item{}
		var R int64
		sizes := []int64{0, 1, 4095, 4096, 4097, 8192, maxSize / 2, maxSize - 4096, maxSize - 1, maxSize, 1 << 62, 1<<63 - 4096}
		drawSize := func(label string) int64 {
			s := rapid.SampledFrom(sizes).Draw(t, label)
			if s < 0 {
				s = 0
			}
			return s
		}
		nev := 0
		t.Repeat(map[string]func(*rapid.T){
			"add": func(t *rapid.T) {
				k := rapid.SampledFrom([]string{"a", "b", "c", "d", "e", "f"}).Draw(t, "key")
				sz, dsk := drawSize("size"), drawSize("disk")
				// Entries are real files: their sizes are physical (declared sizes of
				// reservations, by contrast, are client-controlled up to MaxInt64).
				if dsk > 1<<40 {
					dsk = 1<<40 + dsk%4096
				}
				if sz > 1<<40 {
					sz = 1<<40 + sz%4096
				}
				if l.Add(k, sz, dsk, "r") {
					model[k] = item{sz, dsk}
				}
			},
			"get": func(t *rapid.T) {
				l.Get(rapid.SampledFrom([]string{"a", "b", "c", "d", "e", "f"}).Draw(t, "key"))
			},
			"remove": func(t *rapid.T) {
				l.Remove(rapid.SampledFrom([]string{"a", "b", "c", "d", "e", "f"}).Draw(t, "key"))
			},
			"reserve": func(t *rapid.T) {
				n := drawSize("n")
				if err := l.Reserve(n); err == nil {
					R += n
				}
			},
			"unreserve": func(t *rapid.T) {
				if R == 0 {
					t.Skip("nothing reserved")
				}
				n := rapid.Int64Range(1, R).Draw(t, "n")
				if rapid.Bool().Draw(t, "all") {
					n = R
				}
				if err := l.Unreserve(n); err != nil {
					t.Fatalf("Unreserve(%d) of %d reserved: %v", n, R, err)
				}
				R -= n
			},
			"": func(t *rapid.T) {
				total, res, n, unc := l.Stats()
				snap := l.Snapshot()
				var sd, sl int64
				for _, e := range snap {
					sd += machine.Round4k(e.SizeOnDisk)
					sl += machine.Round4k(e.Size)
				}
				nev += len(l.Evicted)
				l.Evicted = nil
				if res != R || total != sd+R || total > maxSize || total < 0 || unc != sl || n != len(snap) {
					t.Fatalf("SizedLRU: total=%d reserved=%d n=%d unc=%d; entries Σdisk=%d Σlogical=%d len=%d; R=%d max=%d", total, res, n, unc, sd, sl, len(snap), R, maxSize)
				}
			},
		})
		E.Case(fmt.Sprintf("lru|%d|%d|%d", maxSize, nev, len(model)), nev > 0 || R > 0, "lru-direct", fmt.Sprintf("lru.max=%d", maxSize))
	})
}
