package c15

import (
	"bytes"
	"fmt"
	"io"
	"net/http"
	"net/url"
	"strings"
	"testing"

	pb "github.com/buchgr/bazel-remote/v2/genproto/build/bazel/remote/execution/v2"
	"google.golang.org/grpc/codes"
	"google.golang.org/grpc/status"
	"google.golang.org/protobuf/proto"
	"pgregory.net/rapid"

	"verif/harness/internal/cl"
	"verif/harness/internal/ev"
	"verif/harness/internal/gen"
	"verif/harness/internal/rt"
	"verif/harness/internal/stack"
)

func TestMain(m *testing.M) { rt.Main(m, "C15") }

var E = ev.Get("C15")

// Instance names: clean per README (no "//", "./", "../").
var instances = []string{"", "", "foo", "a/b/c", "ac", "cas", "x/ac", "ac/cas/blobs", "blobs", "ünï-cödé", "команда/проект", "team a", "50%done", "q?x=1", "frag#1", "plus+sign", "e3b0c44298fc1c149afbf4c8996fb92427ae41e4649b934ca495991b7852b855", "UPPER/lower",
	// longer than one SHA-256 block, pairwise equal in their first 64 / 128 bytes
	"projects/acme-build-infra/locations/europe-west4/instances/ci-linux/team-alpha",
	"projects/acme-build-infra/locations/europe-west4/instances/ci-linux/team-bravo",
	"projects/acme-build-infra/locations/europe-west4/instances/ci-li",
	longInst + "/tail-one", longInst + "/tail-two", longInst}

// families of long names that agree in a long prefix
var longFamilies = [][]string{instances[len(instances)-6 : len(instances)-3], instances[len(instances)-3:]}

const longInst = "org/0123456789abcdef0123456789abcdef0123456789abcdef0123456789abcdef/0123456789abcdef0123456789abcdef0123456789abcdef0123456789abcdef"

type world struct {
	s       *stack.Stack
	rawURL  string // HTTP front end with validation off (RAW namespace)
	mangle  bool
	cas     map[string][]byte           // hash -> content
	ac      map[string]*pb.ActionResult // (instance|)hash -> message
	raw     map[string][]byte
	log     []string
}

func (w *world) acKey(inst, hash string) string {
	if w.mangle {
		return inst + "|" + hash
	}
	return hash
}

func httpDo(w *world, base, method, inst, kind, hash string, hdr map[string]string, body []byte) (int, http.Header, []byte) {
	p := "/" + kind + "/" + hash
	if inst != "" {
		p = "/" + inst + p
	}
	u, _ := url.Parse(base)
	u.Path = p
	var rd io.Reader
	if body != nil {
		rd = bytes.NewReader(body)
	}
	req, err := http.NewRequest(method, u.String(), rd)
	if err != nil {
		panic(err)
	}
	for k, v := range hdr {
		req.Header.Set(k, v)
	}
	resp, err := w.s.Client.Do(req)
	if err != nil {
		return 0, nil, nil
	}
	defer resp.Body.Close()
	b, _ := io.ReadAll(resp.Body)
	return resp.StatusCode, resp.Header, b
}

func mkAR(t *rapid.T) *pb.ActionResult {
	ar := &pb.ActionResult{ExitCode: int32(rapid.IntRange(0, 100).Draw(t, "exit")), ExecutionMetadata: &pb.ExecutedActionMetadata{Worker: "w" + fmt.Sprint(rapid.IntRange(0, 9).Draw(t, "worker"))}}
	if rapid.Bool().Draw(t, "stdout") {
		ar.StdoutRaw = gen.Expand(uint64(ar.ExitCode), rapid.IntRange(1, 300).Draw(t, "stdoutLen"), "text")
	}
	return ar
}

func TestC15Isolation(t *testing.T) {
	E.SetRule("rapid state machine over one cache reachable through gRPC and two HTTP front ends (validation on => action cache, off => raw action cache), mounted on a ServeMux like main.go; a pool of keys used in all three namespaces (a CAS key is the SHA-256 of its content and is reused as AC and RAW key); rules: put / overwrite / failing put / get / head in a drawn namespace, with Accept-Encoding: zstd on non-CAS reads; mangling on/off × instance names (empty, nested, containing ac/cas/blobs/64-hex segments, unicode, characters that need URL escaping) × writer front end × reader front end. Oracle: three independent maps; after every step EVERY (namespace, key[, instance]) is read back and must equal its map; zstd bodies only from the CAS; with mangling a hit exactly for the same instance over either front end. non-trivial: same key live in >=2 namespaces, or writer and reader front ends differ with a non-empty instance; distinct by (mangling, namespaces live, instance classes, front-end pairs)")
	rt.Check(t, rt.N(200, 1500), func(t *rapid.T) {
		mangle := rapid.Bool().Draw(t, "mangle")
		storage := rapid.SampledFrom([]string{"zstd", "uncompressed"}).Draw(t, "storage")
		// (the gRPC front end takes another path to the action cache when its
		// dependency check is switched off)
		noDeps := rapid.IntRange(0, 2).Draw(t, "grpcDepsCheckOff") == 0
		if noDeps {
			E.Label("grpc-ac-deps-check=off")
		}
		s, err := stack.New(stack.Opts{Storage: storage, Mangle: mangle, NoDepsCheck: noDeps})
		if err != nil {
			t.Fatal(err)
		}
		defer s.Close()
		w := &world{s: s, mangle: mangle, cas: map[string][]byte{}, ac: map[string]*pb.ActionResult{}, raw: map[string][]byte{}}
		w.rawURL = s.AddHTTP(true)

		// key pool: contents whose hashes serve as keys everywhere
		nk := rapid.IntRange(2, 4).Draw(t, "nkeys")
		var contents [][]byte
		var keys []string
		for i := 0; i < nk; i++ {
			c := gen.Expand(uint64(i)+31, rapid.IntRange(1, 3000).Draw(t, "contentLen"), rapid.SampledFrom([]string{"rand", "text"}).Draw(t, "content"))
			if i == 0 && rapid.IntRange(0, 4).Draw(t, "emptyKey") == 0 {
				// the empty blob's hash as a key: the CAS holds that blob by
				// definition, the other two namespaces hold nothing under it
				c = []byte{}
				w.cas[gen.SHA(c)] = c
				E.Label("key=empty-blob-hash")
			}
			contents = append(contents, c)
			keys = append(keys, gen.SHA(c))
		}
		ninst := rapid.IntRange(1, 3).Draw(t, "ninst")
		insts := []string{}
		for i := 0; i < ninst; i++ {
			insts = append(insts, rapid.SampledFrom(instances).Draw(t, "inst"))
		}
		if rapid.IntRange(0, 3).Draw(t, "longFamily") == 0 {
			insts = append([]string{}, rapid.SampledFrom(longFamilies).Draw(t, "family")...)
			E.Label("instances=long-common-prefix")
		}
		crossFrontEnd := false
		usedInst := map[string]bool{}

		checkAll := func(t *rapid.T, after string) {
			for i, k := range keys {
				_ = i
				// CAS via HTTP (both front ends) and gRPC
				want, ok := w.cas[k]
				for _, base := range []string{s.URL, w.rawURL} {
					code, hdr, body := httpDo(w, base, "GET", "", "cas", k, nil, nil)
					if ok && (code != 200 || !bytes.Equal(body, want)) || !ok && code != 404 {
						t.Fatalf("after %s: CAS GET %s -> %d (%d bytes), model present=%v\n%s", after, k[:8], code, len(body), ok, strings.Join(w.log, "\n"))
					}
					_ = hdr
				}
				// AC namespace, per instance, over gRPC and validated HTTP
				for _, inst := range append([]string{""}, insts...) {
					wantAR, ok := w.ac[w.acKey(inst, k)]
					ctx, cancel := cl.Ctx()
					got, err := s.AC.GetActionResult(ctx, &pb.GetActionResultRequest{InstanceName: inst, ActionDigest: &pb.Digest{Hash: k, SizeBytes: 1}, InlineStdout: true})
					cancel()
					if ok {
						if err != nil || !proto.Equal(got, wantAR) {
							t.Fatalf("after %s: gRPC GetActionResult(inst=%q, %s) = %v, %v; want %v\n%s", after, inst, k[:8], got, err, wantAR, strings.Join(w.log, "\n"))
						}
					} else if status.Code(err) != codes.NotFound {
						t.Fatalf("after %s: gRPC GetActionResult(inst=%q, %s) = %v, %v; model says absent\n%s", after, inst, k[:8], got, err, strings.Join(w.log, "\n"))
					}
					hdrs := map[string]string{}
					if rapid.Bool().Draw(t, "acceptZstd") {
						hdrs["Accept-Encoding"] = "zstd"
					}
					code, hdr, body := httpDo(w, s.URL, "GET", inst, "ac", k, hdrs, nil)
					if hdr.Get("Content-Encoding") == "zstd" {
						t.Fatalf("after %s: zstd-encoded body served for an action-cache key\n%s", after, strings.Join(w.log, "\n"))
					}
					if ok {
						var g pb.ActionResult
						if code != 200 || proto.Unmarshal(body, &g) != nil || !proto.Equal(&g, wantAR) {
							t.Fatalf("after %s: HTTP GET /%s/ac/%s -> %d; want the stored ActionResult\n%s", after, inst, k[:8], code, strings.Join(w.log, "\n"))
						}
					} else if code != 404 {
						t.Fatalf("after %s: HTTP GET /%s/ac/%s -> %d (%d bytes); model says absent\n%s", after, inst, k[:8], code, len(body), strings.Join(w.log, "\n"))
					}
					// RAW namespace over the non-validating front end
					wantRaw, okr := w.raw[w.acKey(inst, k)]
					code, hdr, body = httpDo(w, w.rawURL, "GET", inst, "ac", k, hdrs, nil)
					if hdr.Get("Content-Encoding") == "zstd" {
						t.Fatalf("after %s: zstd-encoded body served for a raw action-cache key\n%s", after, strings.Join(w.log, "\n"))
					}
					if okr && (code != 200 || !bytes.Equal(body, wantRaw)) || !okr && code != 404 {
						t.Fatalf("after %s: raw HTTP GET /%s/ac/%s (Accept-Encoding %q) -> %d (%d bytes); model present=%v (%d bytes)\n%s", after, inst, k[:8], hdrs["Accept-Encoding"], code, len(body), okr, len(wantRaw), strings.Join(w.log, "\n"))
					}
					code, _, _ = httpDo(w, w.rawURL, "HEAD", inst, "ac", k, nil, nil)
					if okr && code != 200 || !okr && code != 404 {
						t.Fatalf("after %s: raw HTTP HEAD /%s/ac/%s -> %d; model present=%v\n%s", after, inst, k[:8], code, okr, strings.Join(w.log, "\n"))
					}
				}
			}
		}

		t.Repeat(map[string]func(*rapid.T){
			"put-cas": func(t *rapid.T) {
				i := rapid.IntRange(0, nk-1).Draw(t, "key")
				base := rapid.SampledFrom([]string{s.URL, w.rawURL}).Draw(t, "frontend")
				inst := rapid.SampledFrom(insts).Draw(t, "inst")
				code, _, _ := httpDo(w, base, "PUT", inst, "cas", keys[i], nil, contents[i])
				w.log = append(w.log, fmt.Sprintf("PUT cas %s inst=%q -> %d", keys[i][:8], inst, code))
				if code != 200 {
					t.Fatalf("CAS PUT failed: %d", code)
				}
				w.cas[keys[i]] = contents[i]
				checkAll(t, "put-cas")
			},
			"failput-cas": func(t *rapid.T) {
				i := rapid.IntRange(0, nk-1).Draw(t, "key")
				bad := append([]byte("x"), contents[i]...)
				code, _, _ := httpDo(w, s.URL, "PUT", "", "cas", keys[i], nil, bad)
				w.log = append(w.log, fmt.Sprintf("PUT(bad) cas %s -> %d", keys[i][:8], code))
				if code == 200 {
					t.Fatalf("corrupt CAS upload accepted")
				}
				checkAll(t, "failput-cas")
			},
			"put-ac": func(t *rapid.T) {
				i := rapid.IntRange(0, nk-1).Draw(t, "key")
				inst := rapid.SampledFrom(insts).Draw(t, "inst")
				ar := mkAR(t)
				via := rapid.SampledFrom([]string{"grpc", "http"}).Draw(t, "via")
				if via == "grpc" {
					ctx, cancel := cl.Ctx()
					_, err := s.AC.UpdateActionResult(ctx, &pb.UpdateActionResultRequest{InstanceName: inst, ActionDigest: &pb.Digest{Hash: keys[i], SizeBytes: 1}, ActionResult: ar})
					cancel()
					if err != nil {
						t.Fatalf("UpdateActionResult: %v", err)
					}
					if len(ar.StdoutRaw) > 0 {
						// the gRPC upload also stores inlined stdout in the CAS; a one-byte
						// stdout can be the very content a pool key is the hash of
						w.cas[gen.SHA(ar.StdoutRaw)] = ar.StdoutRaw
					}
				} else {
					body, _ := proto.Marshal(ar)
					if code, _, b := httpDo(w, s.URL, "PUT", inst, "ac", keys[i], nil, body); code != 200 {
						t.Fatalf("HTTP PUT ac: %d %s", code, b)
					}
				}
				w.log = append(w.log, fmt.Sprintf("PUT ac %s inst=%q via %s", keys[i][:8], inst, via))
				w.ac[w.acKey(inst, keys[i])] = ar
				if inst != "" {
					crossFrontEnd = true // checkAll reads through both front ends
					usedInst[inst] = true
				}
				checkAll(t, "put-ac")
			},
			"failput-ac": func(t *rapid.T) {
				i := rapid.IntRange(0, nk-1).Draw(t, "key")
				inst := rapid.SampledFrom(insts).Draw(t, "inst")
				bad := &pb.ActionResult{OutputFiles: []*pb.OutputFile{{Path: "/abs", Digest: &pb.Digest{Hash: keys[i], SizeBytes: 1}}}}
				body, _ := proto.Marshal(bad)
				code, _, _ := httpDo(w, s.URL, "PUT", inst, "ac", keys[i], nil, body)
				w.log = append(w.log, fmt.Sprintf("PUT(bad) ac %s inst=%q -> %d", keys[i][:8], inst, code))
				if code == 200 {
					t.Fatalf("invalid ActionResult accepted")
				}
				checkAll(t, "failput-ac")
			},
			"put-raw": func(t *rapid.T) {
				i := rapid.IntRange(0, nk-1).Draw(t, "key")
				inst := rapid.SampledFrom(insts).Draw(t, "inst")
				val := gen.Expand(rapid.Uint64Range(0, 5).Draw(t, "rawSeed"), rapid.IntRange(1, 2000).Draw(t, "rawLen"), "text")
				if rapid.IntRange(0, 3).Draw(t, "rawIsCasContent") == 0 {
					val = contents[i] // identical bytes in two namespaces
				}
				code, _, b := httpDo(w, w.rawURL, "PUT", inst, "ac", keys[i], nil, val)
				w.log = append(w.log, fmt.Sprintf("PUT raw %s inst=%q (%d bytes) -> %d", keys[i][:8], inst, len(val), code))
				if code != 200 {
					t.Fatalf("raw PUT: %d %s", code, b)
				}
				w.raw[w.acKey(inst, keys[i])] = val
				if inst != "" {
					usedInst[inst] = true
				}
				checkAll(t, "put-raw")
			},
			"failput-raw": func(t *rapid.T) {
				i := rapid.IntRange(0, nk-1).Draw(t, "key")
				code, _, _ := httpDo(w, w.rawURL, "PUT", "", "ac", keys[i], map[string]string{"Content-Encoding": "zstd", "X-Digest-SizeBytes": "10"}, []byte("not zstd at all"))
				w.log = append(w.log, fmt.Sprintf("PUT(bad zstd) raw %s -> %d", keys[i][:8], code))
				if code == 200 {
					t.Fatalf("garbage zstd upload accepted for a raw key")
				}
				checkAll(t, "failput-raw")
			},
		})
		live := 0
		for _, k := range keys {
			n := 0
			if _, ok := w.cas[k]; ok {
				n++
			}
			for mk := range w.ac {
				if strings.HasSuffix(mk, k) {
					n++
					break
				}
			}
			for mk := range w.raw {
				if strings.HasSuffix(mk, k) {
					n++
					break
				}
			}
			if n > live {
				live = n
			}
		}
		nontrivial := live >= 2 || (crossFrontEnd && len(usedInst) > 0)
		var il []string
		for i := range usedInst {
			il = append(il, i)
		}
		E.Case(fmt.Sprintf("%v|%d|%v|%d", mangle, live, il, len(w.log)), nontrivial, fmt.Sprintf("mangle=%v", mangle), fmt.Sprintf("namespaces-live=%d", live), fmt.Sprintf("instances-used=%d", len(usedInst)))
		E.LabelN("steps", int64(len(w.log)))
		if nontrivial {
			E.Sample(fmt.Sprintf("m=%v,live=%d", mangle, live), map[string]any{"mangle": mangle, "instances": insts, "history": w.log})
		}
		if s.Panics() > 0 {
			t.Fatalf("panic: %v", s.PanicLog)
		}
	})
}
