package c17

import (
	"bytes"
	"context"
	"encoding/base64"
	"encoding/hex"
	"fmt"
	"io"
	"net/http"
	"net/http/httptest"
	"strconv"
	"strings"
	"sync"
	"testing"
	"time"

	"github.com/buchgr/bazel-remote/v2/cache"
	"github.com/buchgr/bazel-remote/v2/cache/disk"
	asset "github.com/buchgr/bazel-remote/v2/genproto/build/bazel/remote/asset/v1"
	pb "github.com/buchgr/bazel-remote/v2/genproto/build/bazel/remote/execution/v2"
	"google.golang.org/grpc/codes"
	"google.golang.org/grpc/status"
	"pgregory.net/rapid"

	"verif/harness/internal/casfmt"
	"verif/harness/internal/cl"
	"verif/harness/internal/ev"
	"verif/harness/internal/fproxy"
	"verif/harness/internal/gen"
	"verif/harness/internal/rt"
	"verif/harness/internal/stack"
)

var E = ev.Get("C17")

var (
	upMu   sync.Mutex
	upObjs = map[string][]byte{}
	upSrv  *httptest.Server
	upSeq  int
)

// gate parks the background remover before each unlink while closed.
type gate struct {
	mu     sync.Mutex
	ch     chan struct{}
	parked bool
}

var g = &gate{}

func (g *gate) park() {
	g.mu.Lock()
	if !g.parked {
		g.parked, g.ch = true, make(chan struct{})
	}
	g.mu.Unlock()
}
func (g *gate) release() {
	g.mu.Lock()
	if g.parked {
		g.parked = false
		close(g.ch)
	}
	g.mu.Unlock()
}
func (g *gate) wait() {
	g.mu.Lock()
	ch, p := g.ch, g.parked
	g.mu.Unlock()
	if p {
		<-ch
	}
}

func TestMain(m *testing.M) {
	upSrv = httptest.NewServer(http.HandlerFunc(func(w http.ResponseWriter, r *http.Request) {
		upMu.Lock()
		d, ok := upObjs[r.URL.Path]
		upMu.Unlock()
		if !ok {
			http.NotFound(w, r)
			return
		}
		w.Header().Set("Content-Length", strconv.Itoa(len(d)))
		w.Write(d)
	}))
	disk.VerifSetHook(func(point string) {
		if point == "evict.unlink" {
			g.wait()
		}
	})
	rt.Main(m, "C17")
}

func upstream(d []byte) string {
	upMu.Lock()
	defer upMu.Unlock()
	upSeq++
	p := fmt.Sprintf("/o/%d", upSeq)
	upObjs[p] = d
	if len(upObjs) > 32 {
		for k := range upObjs {
			if k != p {
				delete(upObjs, k)
				break
			}
		}
	}
	return upSrv.URL + p
}

var paths = []string{"disk", "http", "http-zstd", "batch", "bs", "bs-zstd", "splice", "ac-inline", "fetch", "backend-fetch-known", "backend-fetch-unknown", "ac-put"}

type outcome struct {
	ok        bool
	exhausted bool // 507 / RESOURCE_EXHAUSTED
	info      string
}

func grpcOut(err error) outcome {
	if err == nil {
		return outcome{ok: true, info: "OK"}
	}
	return outcome{exhausted: status.Code(err) == codes.ResourceExhausted, info: err.Error()}
}

const sigF18 = "hardlimit-bypass/path=backend-fetch/size=unknown"

type world struct {
	s    *stack.Stack
	px   *fproxy.Proxy
	M, H int64
	mode string
	seq  int
	log  []string
}

// measure returns A (accounted), B (bytes of files no longer indexed but still
// on disk), the number of such files, and the index/file snapshots.
func (w *world) measure() (A, B int64, nB int, idx map[string]disk.VerifEntry, files map[string]int64) {
	A, _, _, _ = w.s.Cache.Stats()
	idx = map[string]disk.VerifEntry{}
	indexed := map[string]bool{}
	for _, e := range disk.VerifIndexSnapshot(w.s.Cache) {
		idx[e.Key] = e
		ks := stack.KeyspaceOf(e.Key)
		indexed[casfmt.FileName(ks, e.Key[len(ks)+1:], e.Size, e.Random, e.Legacy)] = true
	}
	files = stack.ListFiles(w.s.Dir)
	for f, sz := range files {
		if !indexed[f] {
			B += sz
			nB++
		}
	}
	return
}

func (w *world) upload(t *rapid.T, path string, b gen.Blob) outcome {
	s := w.s
	switch path {
	case "disk":
		err := s.Cache.Put(context.Background(), cache.CAS, b.Hash, b.Size, bytes.NewReader(b.Data))
		if err == nil {
			return outcome{ok: true, info: "nil"}
		}
		ce, _ := err.(*cache.Error)
		return outcome{exhausted: ce != nil && ce.Code == http.StatusInsufficientStorage, info: err.Error()}
	case "http", "http-zstd":
		hdr := map[string]string{}
		body := b.Data
		if path == "http-zstd" {
			hdr["Content-Encoding"], hdr["X-Digest-SizeBytes"] = "zstd", fmt.Sprint(b.Size)
			body = gen.ZstdGo(b.Data, 1, false)
		}
		r := cl.HTTPPut(s, "/cas/"+b.Hash, hdr, body)
		return outcome{ok: r.Code == 200, exhausted: r.Code == http.StatusInsufficientStorage, info: fmt.Sprintf("HTTP %d %.100s", r.Code, r.Body)}
	case "batch":
		resp, err := cl.BatchUpdate(s, []*pb.BatchUpdateBlobsRequest_Request{{Digest: &pb.Digest{Hash: b.Hash, SizeBytes: b.Size}, Data: b.Data}})
		if err != nil {
			return grpcOut(err)
		}
		c := codes.Code(resp.Responses[0].Status.GetCode())
		return outcome{ok: c == codes.OK, exhausted: c == codes.ResourceExhausted, info: "per-blob " + c.String()}
	case "bs", "bs-zstd":
		z := path == "bs-zstd"
		payload := b.Data
		if z {
			payload = gen.ZstdGo(b.Data, 1, false)
		}
		r := cl.BSWrite(s, cl.Chunked(cl.WriteName("", "u", b.Hash, b.Size, z, ""), payload, []int{len(payload) / 2}, true), false)
		return outcome{ok: r.Code == codes.OK, exhausted: r.Code == codes.ResourceExhausted, info: fmt.Sprintf("%v %v", r.Code, r.Err)}
	case "ac-inline":
		ctx, cancel := cl.Ctx()
		defer cancel()
		w.seq++
		_, err := s.AC.UpdateActionResult(ctx, &pb.UpdateActionResultRequest{ActionDigest: &pb.Digest{Hash: gen.SHA([]byte(fmt.Sprint("ack", w.seq))), SizeBytes: 1},
			ActionResult: &pb.ActionResult{OutputFiles: []*pb.OutputFile{{Path: "o", Digest: &pb.Digest{Hash: b.Hash, SizeBytes: b.Size}, Contents: b.Data}}}})
		return grpcOut(err)
	case "fetch":
		raw, _ := hex.DecodeString(b.Hash)
		ctx, cancel := cl.Ctx()
		defer cancel()
		resp, err := s.Asset.FetchBlob(ctx, &asset.FetchBlobRequest{Uris: []string{upstream(b.Data)}, Qualifiers: []*asset.Qualifier{{Name: "checksum.sri", Value: "sha256-" + base64.StdEncoding.EncodeToString(raw)}}})
		if err != nil {
			return grpcOut(err)
		}
		c := codes.Code(resp.GetStatus().GetCode())
		return outcome{ok: c == codes.OK, exhausted: c == codes.ResourceExhausted, info: "response status " + c.String()}
	case "backend-fetch-known", "backend-fetch-unknown":
		stored := b.Data
		if w.mode == "zstd" {
			stored = casfmt.Encode(b.Data, gen.Chunk, func(x []byte) []byte { return gen.ZstdGo(x, 1, false) })
		}
		w.px.Set(cache.CAS, b.Hash, fproxy.Obj{Stored: stored, Logical: b.Size})
		if path == "backend-fetch-known" {
			_, code, err := cl.BSRead(s, cl.ReadName("", b.Hash, b.Size, false), 0, 0)
			return outcome{ok: code == codes.OK, exhausted: code == codes.ResourceExhausted, info: fmt.Sprintf("%v %v", code, err)}
		}
		r := cl.HTTPGet(s, "/cas/"+b.Hash, nil)
		return outcome{ok: r.Code == 200, exhausted: r.Code == http.StatusInsufficientStorage, info: fmt.Sprintf("HTTP %d %.100s", r.Code, r.Body)}
	}
	panic(path)
}

func TestC17HardLimit(t *testing.T) {
	E.SetRule("rapid state machine: cache with max_size M (64..256 KiB) and max_size_hard_limit H in {M, M+4 KiB, 1.05 M, 2 M, unset}; histories of uploads (1 B..M/2, incompressible or compressible) through disk.Put, HTTP PUT (plain, zstd), BatchUpdateBlobs, ByteStream.Write (plain, zstd), SpliceBlob, inlined ActionResult blobs, FetchBlob and backend fetches (size known / unknown) while the harness holds the background remover parked before its unlinks (verif hook), so the deletion backlog is whatever the history made it; reads and existence checks in between; release + retry. Oracle: with A = accounted size, B = bytes of files on disk that are no longer indexed (harness-observed), s = logical size: H set and A+B+s > H (beyond a rounding band) => refused with 507 / RESOURCE_EXHAUSTED, index and directory unchanged; A+B+s <= H (beyond the band) or H unset => not refused for this reason; reads of indexed entries succeed throughout; after the backlog drains the retry is decided by the same predicate with B = 0. non-trivial: B > 0 at an upload; distinct by (H relation, backlog class, write path, outcome)")
	rt.Check(t, rt.N(200, 1500), func(t *rapid.T) {
		M := int64(rapid.IntRange(16, 64).Draw(t, "maxBlocks")) * 4096
		hrel := rapid.SampledFrom([]string{"M", "M+4k", "1.05M", "2M", "unset"}).Draw(t, "H")
		var H int64
		switch hrel {
		case "M":
			H = M
		case "M+4k":
			H = M + 4096
		case "1.05M":
			H = M + M/20
		case "2M":
			H = 2 * M
		}
		mode := rapid.SampledFrom([]string{"zstd", "uncompressed"}).Draw(t, "mode")
		px := fproxy.New()
		g.release()
		s, err := stack.New(stack.Opts{Storage: mode, MaxSize: M, HardLimit: H, Proxy: px})
		if err != nil {
			t.Fatal(err)
		}
		w := &world{s: s, px: px, M: M, H: H, mode: mode}
		defer func() {
			g.release()
			s.Close()
		}()
		g.park()
		sawBacklog := false
		var lastRefused *gen.Blob
		lastRefusedPath := ""
		nsteps := 0
		doUpload := func(t *rapid.T, path string, b gen.Blob, retry bool) {
			if path == "splice" {
				// chunks first (ordinary uploads, not under test here)
				half := len(b.Data) / 2
				if half == 0 {
					path = "disk"
				} else {
					g.release()
					s.WaitEvictions(10 * time.Second)
					for _, c := range [][]byte{b.Data[:half], b.Data[half:]} {
						_ = s.Cache.Put(context.Background(), cache.CAS, gen.SHA(c), int64(len(c)), bytes.NewReader(c))
					}
					s.WaitEvictions(10 * time.Second)
					g.park()
				}
			}
			A, B, nB, idxBefore, filesBefore := w.measure()
			var out outcome
			chunksPresent := true
			if path == "splice" {
				half := len(b.Data) / 2
				for _, c := range [][]byte{b.Data[:half], b.Data[half:]} {
					if _, ok := idxBefore["cas/"+gen.SHA(c)]; !ok {
						chunksPresent = false // one chunk evicted the other in a small cache: not a splice scenario
					}
				}
				ctx, cancel := cl.Ctx()
				_, err := s.CAS.SpliceBlob(ctx, &pb.SpliceBlobRequest{BlobDigest: &pb.Digest{Hash: b.Hash, SizeBytes: b.Size},
					ChunkDigests: []*pb.Digest{{Hash: gen.SHA(b.Data[:half]), SizeBytes: int64(half)}, {Hash: gen.SHA(b.Data[half:]), SizeBytes: b.Size - int64(half)}}})
				cancel()
				out = grpcOut(err)
				// reading the chunks refreshes nothing that matters for the predicate
			} else {
				out = w.upload(t, path, b)
			}
			sz := b.Size
			if path == "ac-inline" {
				sz = 0 // two items are written (the ActionResult and the blob): only the refusal direction is decided below
			}
			band := int64(4096) * int64(nB+2)
			total := A + B + sz
			cls := "dontcare"
			switch {
			case H == 0:
				cls = "must-not-refuse"
			case path == "ac-inline":
				// two items are written: the blob and the ActionResult that also carries it inline
				if A+B+2*b.Size+4096+512 <= H-band {
					cls = "must-not-refuse"
				} else if A+B+b.Size > H+band {
					cls = "must-refuse"
				}
			case path == "splice" && !chunksPresent:
			case total > H+band:
				cls = "must-refuse"
			case total <= H-band:
				cls = "must-not-refuse"
			}
			if B > 0 {
				sawBacklog = true
			}
			bcls := "0"
			if B > 0 {
				bcls = ">0"
				if B > M/2 {
					bcls = ">M/2"
				}
			}
			w.log = append(w.log, fmt.Sprintf("%s %s size=%d: A=%d B=%d(%d files) H=%d M=%d => %s; server: ok=%v exhausted=%v %.80s", map[bool]string{true: "RETRY", false: "upload"}[retry], path, b.Size, A, B, nB, H, M, cls, out.ok, out.exhausted, out.info))
			E.Case(fmt.Sprintf("%s|%s|%s|%s|%v%v", hrel, bcls, path, cls, out.ok, out.exhausted), B > 0, "H="+hrel, "backlog="+bcls, "path="+path, "class="+cls, fmt.Sprintf("outcome=ok:%v/exhausted:%v", out.ok, out.exhausted), "mode="+mode)
			hist := func() string { return strings.Join(w.log, "\n") }
			switch cls {
			case "must-refuse":
				if out.ok {
					if path == "backend-fetch-unknown" && E.Known(sigF18) {
						break
					}
					t.Fatalf("admitted although accounted %d + backlog %d + item %d > hard limit %d\n%s", A, B, sz, H, hist())
				}
				if !out.exhausted {
					t.Fatalf("refused, but not with 507 / RESOURCE_EXHAUSTED (so the client cannot tell it is retryable)\n%s", hist())
				}
				_, _, _, idxAfter, filesAfter := w.measure()
				if len(idxAfter) != len(idxBefore) {
					t.Fatalf("a refused upload changed the index (%d -> %d entries): it must evict nothing and store nothing\n%s", len(idxBefore), len(idxAfter), hist())
				}
				for k, e := range idxBefore {
					if ne, ok := idxAfter[k]; !ok || ne.Random != e.Random {
						t.Fatalf("a refused upload evicted or replaced %s\n%s", k, hist())
					}
				}
				if len(filesAfter) != len(filesBefore) {
					t.Fatalf("a refused upload changed the directory (%d -> %d files)\n%s", len(filesBefore), len(filesAfter), hist())
				}
				lastRefused, lastRefusedPath = &b, path
			case "must-not-refuse":
				if out.exhausted {
					t.Fatalf("refused with 'insufficient storage' although accounted %d + backlog %d + item %d <= hard limit %d (H unset = %v)\n%s", A, B, sz, H, H == 0, hist())
				}
			}
		}
		t.Repeat(map[string]func(*rapid.T){
			"upload": func(t *rapid.T) {
				nsteps++
				path := rapid.SampledFrom(paths[:len(paths)-1]).Draw(t, "path")
				var n int
				switch rapid.IntRange(0, 3).Draw(t, "sizeClass") {
				case 0:
					n = rapid.IntRange(1, 4096).Draw(t, "size")
				case 1:
					n = rapid.IntRange(4097, int(M/8)).Draw(t, "size")
				case 2:
					n = rapid.IntRange(int(M/8), int(M/3)).Draw(t, "size")
				default:
					n = rapid.IntRange(int(M/3), int(M/2)).Draw(t, "size")
				}
				w.seq++
				b := gen.MakeBlob(uint64(w.seq)*977+uint64(M), n, rapid.SampledFrom([]string{"rand", "rand", "text"}).Draw(t, "content"), "x")
				doUpload(t, path, b, false)
			},
			"read": func(t *rapid.T) {
				// reads and existence checks are served throughout
				snap := disk.VerifIndexSnapshot(s.Cache)
				if len(snap) == 0 {
					t.Skip("empty")
				}
				e := snap[rapid.IntRange(0, len(snap)-1).Draw(t, "which")]
				ks := stack.KeyspaceOf(e.Key)
				kind := map[string]cache.EntryKind{"cas": cache.CAS, "ac": cache.AC, "raw": cache.RAW}[ks]
				hash := e.Key[len(ks)+1:]
				if ok, _ := s.Cache.Contains(context.Background(), kind, hash, e.Size); !ok {
					t.Fatalf("existence check of an indexed entry failed while the remover is delayed\n%s", strings.Join(w.log, "\n"))
				}
				rc, _, err := s.Cache.Get(context.Background(), kind, hash, e.Size, 0)
				if err != nil || rc == nil {
					t.Fatalf("read of an indexed entry failed while the remover is delayed: %v\n%s", err, strings.Join(w.log, "\n"))
				}
				io.Copy(io.Discard, rc)
				rc.Close()
				w.log = append(w.log, "read "+e.Key[:12]+" ok")
			},
			"drain": func(t *rapid.T) {
				g.release()
				if !s.WaitEvictions(20 * time.Second) {
					if q := disk.VerifQueuedEvictionBytes(s.Cache); q < 0 {
						// not a slow remover: the counter the hard-limit admission adds to
						// the cache size has gone below zero, so admission under-counts
						// what is on disk
						t.Fatalf("the count of bytes queued for deletion is %d after the remover was released: the hard limit is checked against less than what is on disk\n%s", q, strings.Join(w.log, "\n"))
					}
					fmt.Println("VERIF-INFRA: backlog did not drain")
					t.Fatalf("VERIF-INFRA")
				}
				w.log = append(w.log, "remover released, backlog drained")
				if lastRefused != nil {
					doUpload(t, lastRefusedPath, *lastRefused, true)
					lastRefused = nil
				}
				g.park()
			},
		})
		g.release()
		s.WaitEvictions(20 * time.Second)
		if lastRefused != nil {
			w.log = append(w.log, "remover released, backlog drained")
			doUpload(t, lastRefusedPath, *lastRefused, true)
		}
		_ = sawBacklog
		E.Sample(hrel+fmt.Sprint(sawBacklog), map[string]any{"M": M, "H": H, "mode": mode, "history": w.log})
		if s.Panics() > 0 {
			t.Fatalf("panic: %v", s.PanicLog)
		}
	})
}

// TestC17KnownF18 re-demonstrates the listed known finding; it never fails.
func TestC17KnownF18(t *testing.T) {
	if !E.IsListed(sigF18) {
		t.Skip("not listed")
	}
	g.release()
	px := fproxy.New()
	M := int64(64 * 1024)
	s, err := stack.New(stack.Opts{Storage: "uncompressed", MaxSize: M, HardLimit: M, Proxy: px})
	if err != nil {
		t.Fatal(err)
	}
	defer s.Close()
	for i := 0; i < 2; i++ {
		d := gen.Expand(uint64(i)+1, 30000, "rand")
		_ = s.Cache.Put(context.Background(), cache.CAS, gen.SHA(d), 30000, bytes.NewReader(d))
	}
	d := gen.Expand(9, 60000, "rand")
	px.Set(cache.CAS, gen.SHA(d), fproxy.Obj{Stored: d, Logical: 60000})
	rc, _, err := s.Cache.Get(context.Background(), cache.CAS, gen.SHA(d), -1, 0)
	if rc != nil {
		rc.Close()
		if err == nil {
			E.Known(sigF18)
		}
	}
	E.Case("known-F18-probe", true, "probe=F18")
}
