package c09

import (
	"bytes"
	"context"
	"fmt"
	"io"
	"os"
	"path/filepath"
	"sort"
	"strings"
	"testing"
	"time"

	"github.com/buchgr/bazel-remote/v2/cache"
	"github.com/buchgr/bazel-remote/v2/cache/disk"
	"pgregory.net/rapid"

	"verif/harness/internal/casfmt"
	"verif/harness/internal/ev"
	"verif/harness/internal/gen"
	"verif/harness/internal/rt"
	"verif/harness/internal/stack"
)

func TestMain(m *testing.M) { rt.Main(m, "C09") }

var E = ev.Get("C09")

func r4k(n int64) int64 { return (n + 4095) / 4096 * 4096 }

type ent struct {
	key     string // keyspace/hash
	layout  string // v2-zstd | v2-identityhdr | v2-v1 | v2-raw | legacy-flat | legacy-2level
	rel     string // path relative to the cache dir as generated
	data    []byte // logical content
	fsize   int64  // file size on disk
	atime   time.Time
	dupOf   int // index of an earlier entry with the same key, or -1
}

// mtimeShift decorrelates modification times from access times: entries are
// read back in another order than they were written.
var mtimeShift = func(at time.Time) time.Time { return at.Add(-time.Hour) }

func write(dir, rel string, data []byte, at time.Time) error {
	p := filepath.Join(dir, rel)
	if err := os.MkdirAll(filepath.Dir(p), 0o755); err != nil {
		return err
	}
	if err := os.WriteFile(p, data, 0o644); err != nil {
		return err
	}
	return os.Chtimes(p, at, mtimeShift(at))
}

func TestC09Restart(t *testing.T) {
	E.SetRule("rapid draws a directory population built by the harness's independent format writer: 0..30 entries in the current layout (compressed CAS with chunk sizes 64 KiB/1 MiB and any suffix, header+identity, raw .v1, ac, raw), legacy flat (<ks>/<hash>) and two-level (<ks>/<hh>/<hash>) layouts for ac/cas/raw, duplicate files for one key (two suffixes; .v1 + compressed; legacy + current), lost+found directories at each level, .DS_Store files; sizes 1 B..200 KiB; distinct access times set with Chtimes in a drawn order; new max_size in {larger than, equal to, smaller than the rounded total, smaller than the largest file}; storage mode and codec after restart. Oracle: disk.New succeeds; one survivor per key (the most recently accessed duplicate); every victim that is not itself larger than max_size has an older atime than every survivor; survivors fit and (no duplicates) re-adding the newest victim would not; every survivor is served under its key with unchanged content and size; Stats and directory match the index; the LRU order equals atime order and later pressure evicts in that order. non-trivial: population exceeds the new max_size, or mixes layouts/modes, or contains a duplicate; distinct by (layout set, size relation, mode after restart, duplicates)")
	rt.Check(t, rt.N(150, 1200), func(t *rapid.T) {
		dir := stack.FreshDir()
		defer stack.RecycleDir(dir)
		n := rapid.IntRange(0, 30).Draw(t, "nentries")
		if rapid.IntRange(0, 3).Draw(t, "few") == 0 {
			n = rapid.IntRange(0, 4).Draw(t, "nfew")
		}
		base := time.Date(2024, 1, 1, 0, 0, 0, 0, time.UTC)
		perm := rapid.Permutation(seq(n)).Draw(t, "atimeOrder")
		// modification times in the reverse (or an unrelated) order of the access times
		base0 := time.Date(2024, 1, 1, 0, 0, 0, 0, time.UTC)
		mrev := rapid.Bool().Draw(t, "mtimeReversed")
		mtimeShift = func(at time.Time) time.Time {
			if mrev {
				return base0.Add(-at.Sub(base0)) // later access => earlier modification
			}
			return at.Add(-time.Hour)
		}
		var ents []*ent
		layouts := map[string]bool{}
		for i := 0; i < n; i++ {
			ks := rapid.SampledFrom([]string{"cas", "cas", "cas", "ac", "raw"}).Draw(t, "keyspace")
			size := rapid.SampledFrom([]int{1, 50, 4095, 4096, 4097, 9000, 30000, 70000, 200000}).Draw(t, "size")
			if rapid.Bool().Draw(t, "sizeRandom") {
				size = rapid.IntRange(1, 200000).Draw(t, "sizeVal")
			}
			data := gen.Expand(uint64(i)*17+3, size, rapid.SampledFrom([]string{"rand", "text"}).Draw(t, "content"))
			hash := gen.SHA(data)
			if ks != "cas" {
				hash = gen.SHA([]byte(fmt.Sprintf("key-%d", i)))
			}
			dup := -1
			if len(ents) > 0 && rapid.IntRange(0, 5).Draw(t, "dup") == 0 {
				// second file for an existing key (same content for CAS, any content otherwise)
				dup = rapid.IntRange(0, len(ents)-1).Draw(t, "dupOf")
				ks = stack.KeyspaceOf(ents[dup].key)
				hash = ents[dup].key[len(ks)+1:]
				if ks == "cas" {
					data = ents[dup].data
				}
				for ents[dup].dupOf >= 0 {
					dup = ents[dup].dupOf
				}
			}
			var choices []string
			if ks == "cas" {
				choices = []string{"v2-zstd", "v2-zstd", "v2-identityhdr", "v2-v1", "legacy-flat", "legacy-2level"}
			} else {
				choices = []string{"v2-raw", "v2-raw", "legacy-flat", "legacy-2level"}
			}
			layout := rapid.SampledFrom(choices).Draw(t, "layout")
			suffix := rapid.StringMatching(`[0-9a-zA-Z]{1,10}`).Draw(t, "suffix")
			if suffix == "222444666" || suffix == "556677" || suffix == "112233" {
				suffix += "x" // suffixes the migration itself uses
			}
			e := &ent{key: ks + "/" + hash, layout: layout, data: data, dupOf: dup, atime: base.Add(time.Duration(perm[i]+1) * time.Minute)}
			file := data
			switch layout {
			case "v2-zstd":
				chunk := rapid.SampledFrom([]int{65536, gen.MiB}).Draw(t, "chunk")
				file = casfmt.Encode(data, chunk, func(b []byte) []byte { return gen.ZstdGo(b, 1, false) })
				e.rel = casfmt.FileName("cas", hash, int64(len(data)), suffix, false)
			case "v2-identityhdr":
				file = casfmt.EncodeIdentity(data, gen.MiB)
				e.rel = casfmt.FileName("cas", hash, int64(len(data)), suffix, false)
			case "v2-v1":
				e.rel = casfmt.FileName("cas", hash, -1, suffix, true)
			case "v2-raw":
				e.rel = casfmt.FileName(ks, hash, -1, suffix, false)
			case "legacy-flat":
				e.rel = ks + "/" + hash
			case "legacy-2level":
				e.rel = ks + "/" + hash[:2] + "/" + hash
			}
			// two generated files must not collide on the same path (or on the path a migration produces)
			clash := false
			for _, o := range ents {
				if o.rel == e.rel || (strings.HasPrefix(o.layout, "legacy") && strings.HasPrefix(layout, "legacy") && o.key == e.key) {
					clash = true
				}
			}
			if clash {
				continue
			}
			e.fsize = int64(len(file))
			if err := write(dir, e.rel, file, e.atime); err != nil {
				t.Fatal(err)
			}
			layouts[layout] = true
			ents = append(ents, e)
		}
		// clutter the file system tolerates
		clutter := []string{}
		for _, c := range []string{"lost+found/", "cas.v2/lost+found/", "ac.v2/lost+found/", "cas.v2/ab/lost+found/", "raw.v2/0f/lost+found/", ".DS_Store", "cas.v2/.DS_Store", "ac.v2/.ds_store"} {
			if rapid.IntRange(0, 4).Draw(t, "clutter") == 0 {
				if strings.HasSuffix(c, "/") {
					_ = os.MkdirAll(filepath.Join(dir, c), 0o755)
				} else {
					_ = os.MkdirAll(filepath.Dir(filepath.Join(dir, c)), 0o755)
					_ = os.WriteFile(filepath.Join(dir, c), []byte("x"), 0o644)
				}
				clutter = append(clutter, c)
			}
		}
		for _, l := range []string{"cas", "ac", "raw"} {
			if _, err := os.Stat(filepath.Join(dir, l)); err == nil && rapid.IntRange(0, 3).Draw(t, "legacyClutter") == 0 {
				_ = os.MkdirAll(filepath.Join(dir, l, "lost+found"), 0o755)
				clutter = append(clutter, l+"/lost+found/")
			}
		}

		// expected winners per key: the most recently accessed duplicate
		winner := map[string]*ent{}
		hasDup := false
		for _, e := range ents {
			if w, ok := winner[e.key]; !ok || e.atime.After(w.atime) {
				if ok {
					hasDup = true
				}
				winner[e.key] = e
			} else {
				hasDup = true
			}
		}
		var total, largest int64
		for _, e := range winner {
			total += r4k(e.fsize)
			if r4k(e.fsize) > largest {
				largest = r4k(e.fsize)
			}
		}
		rel := rapid.SampledFrom([]string{"larger", "equal", "smaller", "smaller", "below-largest"}).Draw(t, "maxRel")
		var maxSize int64
		switch rel {
		case "larger":
			maxSize = total + int64(rapid.IntRange(1, 100000).Draw(t, "slack"))
		case "equal":
			maxSize = total
		case "smaller":
			if total > 4096 {
				maxSize = int64(rapid.Int64Range(4096, total-1).Draw(t, "maxVal"))
			} else {
				maxSize = 4096
			}
		default:
			if largest > 4096 {
				maxSize = largest - int64(rapid.IntRange(1, int(largest-4095)).Draw(t, "below"))
			} else {
				maxSize = 4096
			}
		}
		if maxSize < 1 {
			maxSize = 4096
		}
		// A file larger than the whole cache goes regardless of its age, so among
		// duplicates the expected winner is the most recently accessed one THAT
		// FITS; only when none fits does the key disappear altogether.
		oversizeDupWinner := false
		for _, e := range ents {
			w := winner[e.key]
			if w == e || r4k(e.fsize) > maxSize {
				continue
			}
			if r4k(w.fsize) > maxSize || e.atime.After(w.atime) {
				if r4k(w.fsize) > maxSize {
					oversizeDupWinner = true
				}
				winner[e.key] = e
			}
		}
		if oversizeDupWinner {
			E.Label("dup=newest-duplicate-oversize")
		}
		storage := rapid.SampledFrom([]string{"zstd", "uncompressed"}).Draw(t, "storage")
		codec := rapid.SampledFrom([]string{"go", "cgo"}).Draw(t, "codec")
		var ls []string
		for l := range layouts {
			ls = append(ls, l)
		}
		sort.Strings(ls)
		nontrivial := total > maxSize || len(ls) >= 2 || hasDup
		E.Case(fmt.Sprintf("%v|%s|%s/%s|%v|%d", ls, rel, storage, codec, hasDup, len(clutter)), nontrivial, "maxrel="+rel, "after="+storage+"/"+codec, fmt.Sprintf("dup=%v", hasDup), fmt.Sprintf("layouts=%d", len(ls)), fmt.Sprintf("exceeds=%v", total > maxSize), fmt.Sprintf("clutter=%v", len(clutter) > 0))
		for _, l := range ls {
			E.Label("layout=" + l)
		}
		E.Sample(rel+fmt.Sprint(hasDup), map[string]any{"entries": len(ents), "layouts": ls, "clutter": clutter, "rounded_total": total, "largest": largest, "max_size": maxSize, "after": storage + "/" + codec})
		desc := func() string {
			var sb strings.Builder
			fmt.Fprintf(&sb, "max_size=%d (%s) total=%d largest=%d after=%s/%s clutter=%v\n", maxSize, rel, total, largest, storage, codec, clutter)
			for _, e := range ents {
				fmt.Fprintf(&sb, "  %s %s file=%d logical=%d atime=+%dm %s\n", e.layout, e.rel, e.fsize, len(e.data), int(e.atime.Sub(base).Minutes()), map[bool]string{true: "(dup)", false: ""}[e.dupOf >= 0])
			}
			return sb.String()
		}

		s, err := stack.New(stack.Opts{Storage: storage, Zstd: codec, MaxSize: maxSize, Dir: dir, NoServers: true})
		if err != nil {
			t.Fatalf("start-up on a bazel-remote directory failed: %v\n%s", err, desc())
		}
		defer s.Close()
		if !s.WaitEvictions(20 * time.Second) {
			fmt.Println("VERIF-INFRA: backlog not drained")
			t.Fatalf("VERIF-INFRA")
		}
		snap := disk.VerifIndexSnapshot(s.Cache)
		inIndex := map[string]disk.VerifEntry{}
		for _, e := range snap {
			if _, dup := inIndex[e.Key]; dup {
				t.Fatalf("key %s indexed twice\n%s", e.Key, desc())
			}
			inIndex[e.Key] = e
		}
		// survivors / victims among the winners
		var survivors, victims []*ent
		for _, e := range winner {
			if _, ok := inIndex[e.key]; ok {
				survivors = append(survivors, e)
			} else {
				victims = append(victims, e)
			}
		}
		for k := range inIndex {
			if _, ok := winner[k]; !ok {
				t.Fatalf("index holds %s which was never in the directory\n%s", k, desc())
			}
		}
		var sum int64
		for _, e := range survivors {
			sum += r4k(e.fsize)
		}
		if sum > maxSize {
			t.Fatalf("survivors occupy %d > max_size %d\n%s", sum, maxSize, desc())
		}
		var newestVictim *ent
		for _, v := range victims {
			if r4k(v.fsize) > maxSize {
				continue // larger than the whole cache: goes regardless of its age
			}
			if newestVictim == nil || v.atime.After(newestVictim.atime) {
				newestVictim = v
			}
			for _, sv := range survivors {
				if v.atime.After(sv.atime) {
					t.Fatalf("evicted %s (atime +%dm) while the older %s (atime +%dm) survives\n%s", v.rel, int(v.atime.Sub(base).Minutes()), sv.rel, int(sv.atime.Sub(base).Minutes()), desc())
				}
			}
		}
		// While a losing duplicate is still indexed it takes space too, so "the
		// directory fits" is judged over every file, duplicates included.
		var totalAll int64
		for _, e := range ents {
			totalAll += r4k(e.fsize)
		}
		if totalAll <= maxSize && len(victims) > 0 {
			t.Fatalf("everything fits (rounded total of all files %d <= max_size %d) but %d entries were evicted\n%s", totalAll, maxSize, len(victims), desc())
		}
		if newestVictim != nil && !hasDup && sum+r4k(newestVictim.fsize) <= maxSize {
			t.Fatalf("evicted more than the surplus: survivors %d + newest victim %d <= max_size %d\n%s", sum, r4k(newestVictim.fsize), maxSize, desc())
		}
		// content through the reader of the new mode
		for _, e := range survivors {
			ks := stack.KeyspaceOf(e.key)
			kind := map[string]cache.EntryKind{"cas": cache.CAS, "ac": cache.AC, "raw": cache.RAW}[ks]
			hash := e.key[len(ks)+1:]
			ie := inIndex[e.key]
			if ie.Size != int64(len(e.data)) {
				t.Fatalf("entry %s indexed with logical size %d, content has %d\n%s", e.key, ie.Size, len(e.data), desc())
			}
			for _, sz := range []int64{int64(len(e.data)), -1} {
				rc, fs, err := s.Cache.Get(context.Background(), kind, hash, sz, 0)
				if err != nil || rc == nil {
					t.Fatalf("survivor %s (%s) not served (size=%d): %v\n%s", e.key, e.layout, sz, err, desc())
				}
				got, _ := io.ReadAll(rc)
				rc.Close()
				if fs != int64(len(e.data)) || !bytes.Equal(got, e.data) {
					t.Fatalf("survivor %s (%s): size %d, %d bytes, content differs=%v\n%s", e.key, e.layout, fs, len(got), !bytes.Equal(got, e.data), desc())
				}
			}
			if kind == cache.CAS {
				rc, _, err := s.Cache.GetZstd(context.Background(), hash, int64(len(e.data)), 0)
				if err != nil || rc == nil {
					t.Fatalf("survivor %s: GetZstd: %v\n%s", e.key, err, desc())
				}
				z, _ := io.ReadAll(rc)
				rc.Close()
				if dec, derr := gen.DecodeBoth(z); derr != nil || !bytes.Equal(dec, e.data) {
					t.Fatalf("survivor %s: compressed read differs (%v)\n%s", e.key, derr, desc())
				}
			}
		}
		// accounting and directory
		tot, res, cnt, unc := s.Cache.Stats()
		var sd, sl int64
		for _, e := range snap {
			sd += r4k(e.SizeOnDisk)
			sl += r4k(e.Size)
		}
		if tot != sd || res != 0 || cnt != len(snap) || unc != sl || tot != sum {
			t.Fatalf("accounting after restart: total=%d reserved=%d items=%d logical=%d; index Σdisk=%d Σlogical=%d n=%d; survivors' files Σ=%d\n%s", tot, res, cnt, unc, sd, sl, len(snap), sum, desc())
		}
		files := stack.ListFiles(s.Dir)
		for _, c := range clutter {
			delete(files, c)
		}
		want := map[string]bool{}
		for _, e := range snap {
			ks := stack.KeyspaceOf(e.Key)
			want[casfmt.FileName(ks, e.Key[len(ks)+1:], e.Size, e.Random, e.Legacy)] = true
		}
		for f := range files {
			if !want[f] {
				t.Fatalf("file %s is left in the directory but not indexed\n%s", f, desc())
			}
		}
		for f := range want {
			if _, ok := files[f]; !ok {
				t.Fatalf("indexed file %s does not exist\n%s", f, desc())
			}
		}
	})
}

// TestC09EvictionOrderLater: the survivors are evicted in atime order by later traffic.
func TestC09EvictionOrderLater(t *testing.T) {
	rt.Check(t, rt.N(60, 500), func(t *rapid.T) {
		dir := stack.FreshDir()
		defer stack.RecycleDir(dir)
		n := rapid.IntRange(2, 8).Draw(t, "n")
		base := time.Date(2024, 1, 1, 0, 0, 0, 0, time.UTC)
		perm := rapid.Permutation(seq(n)).Draw(t, "order")
		base1 := time.Date(2024, 1, 1, 0, 0, 0, 0, time.UTC)
		mtimeShift = func(at time.Time) time.Time { return base1.Add(-at.Sub(base1)) }
		type it struct {
			key   string
			atime time.Time
		}
		var items []it
		for i := 0; i < n; i++ {
			ks := rapid.SampledFrom([]string{"cas", "ac", "raw"}).Draw(t, "ks")
			data := gen.Expand(uint64(i)+77, rapid.IntRange(1, 4096).Draw(t, "size"), "rand")
			hash := gen.SHA(data)
			rel := casfmt.FileName(ks, hash, -1, fmt.Sprintf("s%d", i), ks == "cas")
			at := base.Add(time.Duration(perm[i]+1) * time.Hour)
			if err := write(dir, rel, data, at); err != nil {
				t.Fatal(err)
			}
			items = append(items, it{ks + "/" + hash, at})
		}
		maxSize := int64(n) * 4096
		s, err := stack.New(stack.Opts{Storage: rapid.SampledFrom([]string{"zstd", "uncompressed"}).Draw(t, "storage"), MaxSize: maxSize, Dir: dir, NoServers: true})
		if err != nil {
			t.Fatal(err)
		}
		defer s.Close()
		sort.Slice(items, func(i, j int) bool { return items[i].atime.Before(items[j].atime) })
		E.Case(fmt.Sprintf("later|%d|%v", n, perm), true, "later-eviction-order")
		// every new one-block upload must evict exactly the oldest remaining survivor
		for i := 0; i < n; i++ {
			data := gen.Expand(uint64(1000+i), 100, "rand")
			if err := s.Cache.Put(context.Background(), cache.RAW, gen.SHA(data), 100, bytes.NewReader(data)); err != nil {
				t.Fatal(err)
			}
			present := map[string]bool{}
			for _, e := range disk.VerifIndexSnapshot(s.Cache) {
				present[e.Key] = true
			}
			for j, itm := range items {
				if j <= i && present[itm.key] {
					t.Fatalf("after %d uploads the entry with the %d-th oldest atime is still present", i+1, j+1)
				}
				if j > i && !present[itm.key] {
					t.Fatalf("after %d uploads the entry with the %d-th oldest atime was evicted before older ones", i+1, j+1)
				}
			}
		}
	})
}

func seq(n int) []int {
	out := make([]int, n)
	for i := range out {
		out[i] = i
	}
	return out
}
