# Per-property driver configuration. Case counts live in the Go test files
# (rt.N(quick, thorough) per sub-check, per shard); this table only says how
# to build and shard.
CHECKS = {
    "C01": dict(pkg="./c01", shards=16),
    "C02": dict(pkg="./c02", shards=16),
}
