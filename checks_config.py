# Per-property driver configuration. Case counts live in the Go test files
# (rt.N(quick, thorough) per sub-check, per shard); this table only says how
# to build and shard.
CHECKS = {
    "C07": dict(pkg="./c07", shards=12, race=True, race_shards=4, race_filter="^(TestC07FreeRunning|TestC07LookupStorm)$", race_quick=True),
    "C08": dict(pkg="./c08", shards=16, level="fault_enumeration"),
    "C13": dict(pkg="./c13", shards=4, build_main=True),
    "C17": dict(pkg="./c17", shards=16),
    "C19": dict(overlay_pkg="config", overlay_files=["c19/c19_overlay_test.go"], shards=16, run_filter="^TestC19"),
    "C14": dict(pkg="./c14", shards=16, fuzz=[dict(pkg="./c14", target="FuzzC14HTTP", seconds=90), dict(pkg="./c14", target="FuzzC14ReadName", seconds=60), dict(pkg="./c14", target="FuzzC14Header", seconds=90)]),
    "C12": dict(pkg="./c12", shards=16),
    "C09": dict(pkg="./c09", shards=16),
    "C20": dict(pkg="./c20", shards=16),
    "C18": dict(pkg="./c18", shards=16),
    "C11": dict(pkg="./c11", shards=16),
    "C15": dict(pkg="./c15", shards=16),
    "C06": dict(pkg="./c06", shards=16, race=True, race_shards=2),
    "C16": dict(pkg="./c16", shards=16),
    "C10": dict(pkg="./c10", shards=16, race=True, race_shards=2),
    "C03": dict(pkg="./c03", shards=16),
    "C04": dict(pkg="./c04", shards=16),
    "C05": dict(pkg="./c05", shards=16),
    "C01": dict(pkg="./c01", shards=16),
    "C02": dict(pkg="./c02", shards=16),
}
